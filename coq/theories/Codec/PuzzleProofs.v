(* Proofs about the per-puzzle URL functions (Codec/Puzzles.v):
   - the URL level reduces to the body level (regular expression + name check + int());
   - the body level of a Grid term is C15's round-trip theorem (Codec/CombRoundTrip.all_terms). *)
From Coq Require Import ZArith List Ascii Bool NArith Lia.
From Cspuz Require Import Lib.PyErr Codec.Comb Codec.CombWf Codec.CombBasics Codec.CombLeaf Codec.CombRoundTrip
  Codec.Legacy Codec.Url Codec.UrlProofs Codec.Puzzles Codec.SerChars Codec.Yajilin.
Import ListNotations.
Local Open Scope Z_scope.

(* ------------------------------------------------------------------ URL level *)
(* the two wrappers of a module fit together: same term, a name the regular expression can
   read, and the decoder accepts the name the encoder writes *)
Definition wrappers_consistent (sw : ser_wrapper) (dw : de_wrapper) : Prop :=
  sw_comb sw = dw_comb dw /\ valid_name (sw_puzzle sw) /\ allowed_ok (dw_allowed dw) (sw_puzzle sw) = true.

Definition sized (dw : de_wrapper) (h w : Z) (p : pv) : pv :=
  if dw_return_size dw then VTup [VInt h; VInt w; p] else p.

Lemma deserialize_url_make cu c p nm h w body al af rs r :
  valid_prefix p -> valid_name nm -> valid_body body -> 0 <= h -> 0 <= w ->
  allowed_ok al nm = true ->
  deserialize_problem_cu cu c body h w = Ok r ->
  deserialize_url_cu cu c (make_url p nm h w body) al af rs =
  Ok (match r with None => None | Some VNone => None
      | Some pb => Some (if rs then VTup [VInt h; VInt w; pb] else pb) end).
Proof.
  intros Hp Hn Hb Hh Hw Hal Hde. unfold deserialize_url_cu.
  rewrite (url_match_make p nm h w body Hp Hn Hb Hh Hw).
  destruct (str_nat_digits w Hw) as (_ & _ & Ew). destruct (str_nat_digits h Hh) as (_ & _ & Eh).
  rewrite Ew, Eh. simpl. rewrite Hal. simpl. rewrite Hde. simpl. destruct r as [[]|]; reflexivity.
Qed.

(* if the body round-trips, so does the URL, with the dimensions *)
Theorem url_level_roundtrip cu sw dw h w pb pb' body :
  wrappers_consistent sw dw -> 0 <= h -> 0 <= w ->
  serialize_problem_cu cu (sw_comb sw) pb h w = Ok body -> valid_body body ->
  deserialize_problem_cu cu (sw_comb sw) body h w = Ok (Some pb') -> pb' <> VNone ->
  run_ser_sized cu sw h w pb = Ok (make_url default_prefix (sw_puzzle sw) h w body) /\
  run_de cu dw (make_url default_prefix (sw_puzzle sw) h w body) = Ok (Some (sized dw h w pb')).
Proof.
  intros (Hc & Hn & Hal) Hh Hw Hser Hb Hde Hnn. split.
  - unfold run_ser_sized, serialize_url_cu. rewrite Hser. reflexivity.
  - unfold run_de. rewrite <- Hc.
    rewrite (deserialize_url_make cu (sw_comb sw) default_prefix (sw_puzzle sw) h w body _ _ _ (Some pb')
               default_prefix_valid Hn Hb Hh Hw Hal Hde).
    destruct pb'; try reflexivity. congruence.
Qed.

(* the body has no newline *)
Lemma serialize_body_good cu c pb h w body :
  cust_good (cu_env cu h w) -> nl_free c = true ->
  serialize_problem_cu cu c pb h w = Ok body -> valid_body body.
Proof.
  intros Hcu Hnl H. unfold serialize_problem_cu in H.
  destruct (ser (cu_env cu h w) c (VList [pb]) 0) as [[[k s]|]|] eqn:E; try discriminate.
  inversion H; subst. apply good_valid_body. eapply ser_good; eauto.
Qed.

Lemma no_custom_cu_good h w : cust_good (cu_env no_custom h w).
Proof. exact (no_custom_good h w). Qed.

Lemma yajilin_cu_good h w : cust_good (cu_env yajilin_custom h w).
Proof.
  intros k data idx n s H. simpl in H. unfold yajilin_ser in H.
  destruct (py_items data) as [l|]; try discriminate. simpl in H.
  destruct (Nat.leb (length l) idx); try discriminate.
  destruct (nth_res l idx) as [v|]; try discriminate. simpl in H.
  destruct (pv_eqb v (VStr s_dotdot)); try discriminate.
  destruct (pv_eqb v (VStr s_qq)).
  { inversion H; subst. repeat constructor. }
  destruct v as [| s0 | | |]; try discriminate. destruct s0 as [|c t]; try discriminate.
  assert (Hd : forall d, dir_code c = Ok d -> 1 <= d <= 4).
  { unfold dir_code. intros d. repeat (match goal with |- context [ascii_eqb ?a ?b] => destruct (ascii_eqb a b) end);
      intros E; inversion E; lia. }
  destruct (dir_code c) as [dir|] eqn:Ed; try discriminate. simpl in H. specialize (Hd dir eq_refl).
  destruct (py_int t 10) as [nn|]; try discriminate. simpl in H.
  destruct ((0 <=? nn) && (nn <? 16)) eqn:E1.
  { apply andb_true_iff in E1 as [E1 _]. apply Z.leb_le in E1. inversion H; subst.
    apply good_app; [apply py_str_int_good; lia|apply to_base16_good; lia]. }
  destruct ((16 <=? nn) && (nn <? 256)) eqn:E2.
  { apply andb_true_iff in E2 as [E2 _]. apply Z.leb_le in E2. inversion H; subst.
    apply good_app; [apply py_str_int_good; lia|apply to_base16_good; lia]. }
  destruct ((256 <=? nn) && (nn <? 4096)) eqn:E3; try discriminate.
  apply andb_true_iff in E3 as [E3 _]. apply Z.leb_le in E3. inversion H; subst.
  constructor; [reflexivity|]. apply good_app; [apply py_str_int_good; lia|apply to_base16_good; lia].
Qed.

(* URL level without the newline hypothesis *)
Theorem url_level_roundtrip_nl cu sw dw h w pb pb' body :
  wrappers_consistent sw dw -> 0 <= h -> 0 <= w ->
  cust_good (cu_env cu h w) -> nl_free (sw_comb sw) = true ->
  serialize_problem_cu cu (sw_comb sw) pb h w = Ok body ->
  deserialize_problem_cu cu (sw_comb sw) body h w = Ok (Some pb') -> pb' <> VNone ->
  run_ser_sized cu sw h w pb = Ok (make_url default_prefix (sw_puzzle sw) h w body) /\
  run_de cu dw (make_url default_prefix (sw_puzzle sw) h w body) = Ok (Some (sized dw h w pb')).
Proof.
  intros Hc Hh Hw Hcu Hnl Hser Hde Hnn.
  eapply url_level_roundtrip; eauto. eapply serialize_body_good; eauto.
Qed.

(* serialize_<p>(problem) takes the size from the problem *)
Lemma run_ser_problem_sized cu sw rows r0 rest :
  rows = VList r0 :: rest ->
  run_ser_problem cu sw (VList rows) =
  run_ser_sized cu sw (Z.of_nat (length rows)) (Z.of_nat (length r0)) (VList rows).
Proof. intros ->. reflexivity. Qed.

(* ------------------------------------------------------------------ body level for Grid terms (from C15) *)
Lemma cu_env_no_custom h w : cu_env no_custom h w = mk_env h w.
Proof. reflexivity. Qed.

Theorem grid_body_roundtrip c1 hw h w pb body :
  wf (Grid c1 hw) = true -> rooms_free c1 = true -> 1 <= h -> 1 <= w ->
  accepts (mk_env h w) (Grid c1 hw) [pb] 0 ->
  serialize_problem_cu no_custom (Grid c1 hw) pb h w = Ok body ->
  deserialize_problem_cu no_custom (Grid c1 hw) body h w = Ok (Some pb).
Proof.
  intros Hwf Hrf Hh Hw Hacc Hser.
  assert (Henv : env_ok (mk_env h w)) by (split; simpl; lia).
  destruct (all_terms (mk_env h w) Henv (Grid c1 hw) (or_intror Hrf) Hwf) as (Hrt & _).
  unfold serialize_problem_cu in Hser. rewrite cu_env_no_custom in Hser.
  destruct (ser (mk_env h w) (Grid c1 hw) (VList [pb]) 0) as [[[k s]|]|] eqn:Es; try discriminate.
  inversion Hser; subst s. clear Hser.
  assert (Hk : k = 1%nat).
  { simpl in Es. unfold grid_ser in Es. simpl in Es. destruct pb; try discriminate.
    destruct (grid_dims (mk_env h w) hw) as [gh gw].
    destruct (grid_flatten l (Z.to_nat gh) 0); try discriminate.
    apply seq_ser_inv in Es as (_ & _ & _ & _ & Hk & _). exact Hk. }
  subst k.
  destruct (Hrt [pb] 0%nat 1%nat body [] Es Hacc I) as (items & Hde & Hf & Hle & Hex).
  rewrite app_nil_r in Hde.
  assert (Hlen : length items = 1%nat) by (apply Hex; exact I).
  destruct items as [|p0 [|p1 items']]; try discriminate. simpl in Hf. inversion Hf; subst p0.
  unfold deserialize_problem_cu. rewrite cu_env_no_custom, Hde. reflexivity.
Qed.

(* a problem in the shape serialize_<p> expects: h rows of w cells *)
Definition grid_shape (h w : Z) (pb : pv) (rows : list (list pv)) : Prop :=
  pb = VList (map VList rows) /\ Z.of_nat (length rows) = h /\
  Forall (fun r => Z.of_nat (length r) = w) rows.

Definition is_leaf (c : comb) : bool :=
  match c with
  | FixStr _ | Dict _ _ | Spaces _ _ | DecInt | HexInt | IntSpaces _ _ _ | MultiDigit _ _ => true
  | _ => false
  end.

Lemma accepts_leaf e c data p : is_leaf c = true -> accepts e c data p.
Proof. destruct c; simpl; intros H; try discriminate; exact I. Qed.

Lemma accepts_oneof_leaves e l data p : forallb is_leaf l = true -> accepts e (OneOf l) data p.
Proof.
  rewrite accepts_oneof. induction l as [|c l IH]; simpl; intros H; [exact I|].
  apply andb_true_iff in H as [Hc Hl].
  destruct (ser e c (VList data) p) as [[?|]|]; try (apply accepts_leaf; exact Hc).
  apply IH. exact Hl.
Qed.

(* cell combinators of the bundled puzzles: a leaf, or a OneOf of leaves *)
Definition cell_comb (c : comb) : bool :=
  match c with OneOf l => forallb is_leaf l | _ => is_leaf c end.

Lemma accepts_cell e c data p : cell_comb c = true -> accepts e c data p.
Proof.
  destruct c; simpl; intros H; try discriminate; try exact I.
  apply accepts_oneof_leaves. exact H.
Qed.

Lemma accepts_grid_cells h w c1 pb rows :
  cell_comb c1 = true -> grid_shape h w pb rows -> accepts (mk_env h w) (Grid c1 None) [pb] 0.
Proof.
  intros Hc (Hpb & Hh & Hw). simpl. exists rows. subst pb. repeat split; auto.
  intros p. apply accepts_cell. exact Hc.
Qed.

(* the five bundled cell-grid codecs at once: any Grid(<cell combinator>) term that is
   well-formed round-trips every h x w problem it can serialize, through the URL *)
Theorem grid_url_roundtrip sw dw c1 h w pb rows body :
  sw_comb sw = Grid c1 None -> wf (Grid c1 None) = true -> rooms_free c1 = true -> cell_comb c1 = true ->
  wrappers_consistent sw dw -> dw_return_size dw = false ->
  1 <= h -> 1 <= w -> grid_shape h w pb rows ->
  nl_free c1 = true ->
  serialize_problem_cu no_custom (sw_comb sw) pb h w = Ok body ->
  run_ser_problem no_custom sw pb = Ok (make_url default_prefix (sw_puzzle sw) h w body) /\
  run_de no_custom dw (make_url default_prefix (sw_puzzle sw) h w body) = Ok (Some pb).
Proof.
  intros Hc Hwf Hrf Hcell Hcons Hrs Hh Hw Hshape Hnl Hser.
  assert (Hb : valid_body body).
  { eapply serialize_body_good; [apply no_custom_cu_good| |exact Hser]. rewrite Hc. exact Hnl. }
  assert (Hde : deserialize_problem_cu no_custom (sw_comb sw) body h w = Ok (Some pb)).
  { rewrite Hc in *. apply grid_body_roundtrip; auto. eapply accepts_grid_cells; eauto. }
  assert (Hnn : pb <> VNone) by (destruct Hshape as (-> & _); discriminate).
  destruct (url_level_roundtrip no_custom sw dw h w pb pb body Hcons) as [H1 H2]; auto; try lia.
  split.
  - destruct Hshape as (Hpb & Hlen & Hrows).
    destruct rows as [|r0 rows']; [simpl in Hlen; lia|].
    assert (Hw0 : Z.of_nat (length r0) = w) by (inversion Hrows; assumption).
    rewrite Hpb in H1 |- *. simpl map in H1 |- *.
    erewrite run_ser_problem_sized by reflexivity.
    simpl length in Hlen |- *. rewrite map_length. rewrite Hlen, Hw0. exact H1.
  - rewrite H2. unfold sized. rewrite Hrs. reflexivity.
Qed.

(* ------------------------------------------------------------------ room-based modules, given C15's room statements *)
From Coq Require Import Sorting.Permutation.

Lemma rooms_url_roundtrip_given sw dw skip allow :
  rooms_roundtrip_statement ->
  sw_comb sw = Rooms skip allow -> wrappers_consistent sw dw ->
  forall h w rs, 1 <= h -> 1 <= w -> valid_rooms h w rs ->
  exists body rs',
    run_ser_sized no_custom sw h w (rooms_to_pv rs) = Ok (make_url default_prefix (sw_puzzle sw) h w body) /\
    canonical_rooms h w rs' /\ rooms_equiv rs rs' /\
    run_de no_custom dw (make_url default_prefix (sw_puzzle sw) h w body) = Ok (Some (sized dw h w (rooms_to_pv rs'))).
Proof.
  intros Hst Hc Hcons h w rs Hh Hw Hv.
  destruct (Hst h w skip allow rs Hh Hw Hv) as (s & rs' & Hser & Hcan & Heq & Hde).
  exists s, rs'.
  assert (HU : run_ser_sized no_custom sw h w (rooms_to_pv rs) = Ok (make_url default_prefix (sw_puzzle sw) h w s) /\
               run_de no_custom dw (make_url default_prefix (sw_puzzle sw) h w s) = Ok (Some (sized dw h w (rooms_to_pv rs')))).
  { apply url_level_roundtrip_nl; auto; try lia.
    - apply no_custom_cu_good.
    - rewrite Hc. reflexivity.
    - rewrite Hc. exact Hser.
    - rewrite Hc. exact Hde.
    - discriminate. }
  destruct HU as [H1 H2]. auto.
Qed.

Lemma valued_rooms_url_roundtrip_given sw dw vc skip allow :
  valued_rooms_roundtrip_statement ->
  sw_comb sw = ValuedRooms vc skip allow -> wrappers_consistent sw dw ->
  wf (ValuedRooms vc skip allow) = true -> rooms_free vc = true -> cell_comb vc = true -> nl_free vc = true ->
  forall h w rs vs body, 1 <= h -> 1 <= w -> valid_rooms h w rs -> length vs = length rs ->
  serialize_problem_cu no_custom (sw_comb sw) (VTup [rooms_to_pv rs; VList vs]) h w = Ok body ->
  exists ps rs',
    Permutation ps (combine rs vs) /\ Forall2 (fun p r' => Permutation (fst p) r') ps rs' /\ canonical_rooms h w rs' /\
    run_ser_sized no_custom sw h w (VTup [rooms_to_pv rs; VList vs]) = Ok (make_url default_prefix (sw_puzzle sw) h w body) /\
    run_de no_custom dw (make_url default_prefix (sw_puzzle sw) h w body)
    = Ok (Some (sized dw h w (VTup [rooms_to_pv rs'; VList (map snd ps)]))).
Proof.
  intros Hst Hc Hcons Hwf Hrf Hcell Hnl h w rs vs body Hh Hw Hv Hlen Hser.
  rewrite Hc in Hser.
  destruct (Hst h w vc skip allow rs vs Hh Hw Hwf Hrf Hv Hlen body Hser) as (ps & rs' & Hp & Hf & Hcan & Hde).
  { intros vs' _ p. apply accepts_cell. exact Hcell. }
  exists ps, rs'.
  assert (HU : run_ser_sized no_custom sw h w (VTup [rooms_to_pv rs; VList vs]) = Ok (make_url default_prefix (sw_puzzle sw) h w body) /\
               run_de no_custom dw (make_url default_prefix (sw_puzzle sw) h w body)
               = Ok (Some (sized dw h w (VTup [rooms_to_pv rs'; VList (map snd ps)])))).
  { apply url_level_roundtrip_nl; auto; try lia.
    - apply no_custom_cu_good.
    - rewrite Hc. exact Hnl.
    - rewrite Hc. exact Hser.
    - rewrite Hc. exact Hde.
    - discriminate. }
  destruct HU as [H1 H2].
  split; [exact Hp|]. split; [exact Hf|]. split; [exact Hcan|]. split; [exact H1|exact H2].
Qed.

(* ------------------------------------------------------------------ room-based modules from C15's RoomsProofs (unconditional) *)
From Cspuz Require Import Codec.RoomsProofs.

(* lits / norinori: any order of rooms and of cells within rooms *)
Theorem rooms_url_roundtrip sw dw skip allow h w rs rs' body :
  sw_comb sw = Rooms skip allow -> wrappers_consistent sw dw -> 1 <= h -> 1 <= w ->
  valid_rooms h w rs -> canonical_rooms h w rs' -> rooms_equiv rs rs' ->
  serialize_problem_cu no_custom (sw_comb sw) (rooms_to_pv rs) h w = Ok body ->
  run_ser_sized no_custom sw h w (rooms_to_pv rs) = Ok (make_url default_prefix (sw_puzzle sw) h w body) /\
  run_de no_custom dw (make_url default_prefix (sw_puzzle sw) h w body) = Ok (Some (sized dw h w (rooms_to_pv rs'))).
Proof.
  intros Hc Hcons Hh Hw Hv Hcan Heq Hser.
  apply url_level_roundtrip_nl; auto; try lia.
  - apply no_custom_cu_good.
  - rewrite Hc. reflexivity.
  - rewrite Hc in *. exact (rooms_roundtrip_any_order h w skip allow rs rs' body Hh Hw Hv Hcan Heq Hser).
  - discriminate.
Qed.

Lemma vrooms_ser_k1 e vc skip allow data idx k s :
  ser e (ValuedRooms vc skip allow) data idx = Ok (Some (k, s)) -> k = 1%nat.
Proof.
  simpl. unfold vrooms_ser. intros H. apply with_item_inv_pv in H as (l & v & _ & _ & H).
  destruct v as [| | | |tl]; try discriminate.
  destruct tl as [|d0 [|d1 [|? ?]]]; try discriminate.
  destruct (py_items d0); try discriminate. destruct (py_items d1); try discriminate.
  destruct (vr_sorted _ _) as [sorted|]; try discriminate. destruct sorted; try discriminate.
  destruct (rooms_ser e skip _ 0) as [[[? ?]|]|]; try discriminate.
  destruct (seq_ser _ _ _ 0) as [[[? ?]|]|]; try discriminate.
  inversion H. reflexivity.
Qed.

(* heyawake's term on a partition given in canonical order (rooms by least cell, cells row-major) *)
Theorem valued_rooms_body_roundtrip vc skip allow h w rs vs body :
  wf (ValuedRooms vc skip allow) = true -> cell_comb vc = true -> 1 <= h -> 1 <= w ->
  canonical_rooms h w rs -> length vs = length rs ->
  serialize_problem_cu no_custom (ValuedRooms vc skip allow) (VTup [rooms_to_pv rs; VList vs]) h w = Ok body ->
  deserialize_problem_cu no_custom (ValuedRooms vc skip allow) body h w = Ok (Some (VTup [rooms_to_pv rs; VList vs])).
Proof.
  intros Hwf Hcell Hh Hw Hcan Hlen Hser.
  assert (Henv : env_ok (mk_env h w)) by (split; simpl; lia).
  pose proof (roundtrip_all (mk_env h w) (ValuedRooms vc skip allow) Henv Hwf) as Hrt.
  unfold serialize_problem_cu in Hser. rewrite cu_env_no_custom in Hser.
  destruct (ser (mk_env h w) (ValuedRooms vc skip allow) (VList [VTup [rooms_to_pv rs; VList vs]]) 0) as [[[k s]|]|] eqn:Es;
    try discriminate.
  inversion Hser; subst s. clear Hser.
  pose proof (vrooms_ser_k1 _ _ _ _ _ _ _ _ Es) as Hk. subst k.
  assert (Hacc : accepts (mk_env h w) (ValuedRooms vc skip allow) [VTup [rooms_to_pv rs; VList vs]] 0).
  { simpl. exists rs, vs. repeat split; auto; try apply Hcan. intros p. apply accepts_cell. exact Hcell. }
  destruct (Hrt [VTup [rooms_to_pv rs; VList vs]] 0%nat 1%nat body [] Es Hacc I) as (items & Hde & Hf & Hle & Hex).
  rewrite app_nil_r in Hde.
  assert (Hl : length items = 1%nat) by (apply Hex; exact I).
  destruct items as [|p0 [|p1 items']]; try discriminate. simpl in Hf. inversion Hf; subst p0.
  unfold deserialize_problem_cu. rewrite cu_env_no_custom, Hde. reflexivity.
Qed.

Theorem valued_rooms_url_roundtrip sw dw vc skip allow h w rs vs body :
  sw_comb sw = ValuedRooms vc skip allow -> wrappers_consistent sw dw ->
  wf (ValuedRooms vc skip allow) = true -> cell_comb vc = true -> nl_free vc = true -> 1 <= h -> 1 <= w ->
  canonical_rooms h w rs -> length vs = length rs ->
  serialize_problem_cu no_custom (sw_comb sw) (VTup [rooms_to_pv rs; VList vs]) h w = Ok body ->
  run_ser_sized no_custom sw h w (VTup [rooms_to_pv rs; VList vs]) = Ok (make_url default_prefix (sw_puzzle sw) h w body) /\
  run_de no_custom dw (make_url default_prefix (sw_puzzle sw) h w body)
  = Ok (Some (sized dw h w (VTup [rooms_to_pv rs; VList vs]))).
Proof.
  intros Hc Hcons Hwf Hcell Hnl Hh Hw Hcan Hlen Hser.
  apply url_level_roundtrip_nl; auto; try lia.
  - apply no_custom_cu_good.
  - rewrite Hc. exact Hnl.
  - rewrite Hc in *. apply valued_rooms_body_roundtrip; auto.
  - discriminate.
Qed.
