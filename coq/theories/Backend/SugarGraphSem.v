(* An executable reading of the two native graph operators on evaluated operands
   (used by the C03 search to compare the meaning of emitted text with [eval]).
   Operand layout (cspuz/graph.py):
     GRAPH_ACTIVE_VERTICES_CONNECTED  n m  a_0..a_{n-1}  x_0 y_0 .. x_{m-1} y_{m-1}
     GRAPH_DIVISION                   n m  s_0..s_{n-1}  x_0 y_0 .. x_{m-1} y_{m-1}  b_0..b_{m-1}
   ( s_i may be unspecified ).  Definitions only. *)
From Coq Require Import ZArith List Bool.
From Cspuz Require Import Core.Expr Graph.GraphModel.
Import ListNotations.

Fixpoint take_n {A} (n : nat) (l : list A) : option (list A * list A) :=
  match n, l with
  | O, _ => Some ([], l)
  | S k, x :: r => match take_n k r with Some (a, b) => Some (x :: a, b) | None => None end
  | S _, [] => None
  end.

Fixpoint all_bools (l : list (option value)) : option (list bool) :=
  match l with
  | [] => Some []
  | Some (VB b) :: r => option_map (cons b) (all_bools r)
  | _ => None
  end.
Fixpoint all_nats (n : nat) (l : list (option value)) : option (list nat) :=
  match l with
  | [] => Some []
  | Some (VI z) :: r =>
      if (0 <=? z)%Z && (z <? Z.of_nat n)%Z then option_map (cons (Z.to_nat z)) (all_nats n r) else None
  | _ => None
  end.
Fixpoint all_sizes (l : list (option value)) : option (list (option Z)) :=
  match l with
  | [] => Some []
  | Some (VI z) :: r => option_map (cons (Some z)) (all_sizes r)
  | None :: r => option_map (cons None) (all_sizes r)
  | _ => None
  end.
Fixpoint pair_up (l : list nat) : list (nat * nat) :=
  match l with a :: b :: r => (a, b) :: pair_up r | _ => [] end.

Definition header (vs : list (option value)) : option (nat * nat * list (option value)) :=
  match vs with
  | Some (VI n) :: Some (VI m) :: r =>
      if (0 <=? n)%Z && (0 <=? m)%Z then Some (Z.to_nat n, Z.to_nat m, r) else None
  | _ => None
  end.

Definition nthb (l : list bool) (i : nat) : bool := nth i l false.

Definition avc_sem (vs : list (option value)) : option bool :=
  match header vs with
  | None => None
  | Some (n, m, r) =>
    match take_n n r with
    | None => None
    | Some (act, es) =>
      if negb (Nat.eqb (length es) (2 * m)) then None else
      match all_bools act, all_nats n es with
      | Some a, Some e => Some (connected_b {| nv := n; edges := pair_up e |} (nthb a))
      | _, _ => None
      end
    end
  end.

(* parts = connected components of the graph restricted to non-border edges;
   every border edge must join two different parts; a specified size is the
   size of the part of its vertex *)
Definition div_sem (vs : list (option value)) : option bool :=
  match header vs with
  | None => None
  | Some (n, m, r) =>
    match take_n n r with
    | None => None
    | Some (sz, r2) =>
      match take_n (2 * m) r2 with
      | None => None
      | Some (es, bs) =>
        if negb (Nat.eqb (length bs) m) then None else
        match all_sizes sz, all_nats n es, all_bools bs with
        | Some s, Some e, Some b =>
            let g := {| nv := n; edges := pair_up e |} in
            let inner := fun k => negb (nthb b k) in
            let comp := fun v => component g (fun _ => true) inner v in
            let borders_ok :=
              forallb (fun '(k, (u, v)) => Bool.eqb (nthb b k) (negb (mem v (comp u))))
                      (combine (seq 0 m) (pair_up e)) in
            let sizes_ok :=
              forallb (fun '(v, s) => match s with
                                      | None => true
                                      | Some z => (Z.of_nat (length (comp v)) =? z)%Z
                                      end)
                      (combine (seq 0 n) s) in
            Some (borders_ok && sizes_ok)
        | _, _, _ => None
        end
      end
    end
  end.

Definition graph_sem (o : op) (vs : list (option value)) : option bool :=
  match o with G_AVC => avc_sem vs | G_DIV => div_sem vs | _ => None end.
