(* C11: the program of solve_nanro is well formed on every board; composition with C02 (solve_reports). *)
From Coq Require Import ZArith List Bool Arith Lia.
From Cspuz Require Import Lib.PyErr Core.Expr Core.Program Graph.GraphModel Graph.Avc
     Backend.Z3 Backend.Z3Oracle Backend.Z3SolveProofs Backend.SolveLoop Backend.SolveZ3Proofs
     Puzzle.PuzzleBase Puzzle.ModelBase Puzzle.ModelLemmas Puzzle.SatAbs Puzzle.SolveCompose Puzzle.WfLemmas
     Puzzle.CreekProofs Puzzle.Rules_norinori Puzzle.Norinori Puzzle.Rules_nanro Puzzle.Nanro Puzzle.NanroProofs.
Import ListNotations.
Local Open Scope nat_scope.

Lemma nr_cidx_inj w y x y' x' : x < w -> x' < w -> cidx w (y, x) = cidx w (y', x') -> (y, x) = (y', x').
Proof. unfold cidx; cbn [fst snd]. intros Hx Hx' E. assert (y = y') by nia. subst. f_equal. lia. Qed.

Lemma nr_nth_seq k i : i < k -> nth_error (seq 0 k) i = Some i.
Proof. intros H. rewrite (nth_error_nth' _ 0) by (rewrite seq_length; exact H). rewrite seq_nth by exact H. reflexivity. Qed.

Lemma nr_nth_cell h w y x : y < h -> x < w -> nth_error (cells h w) (cidx w (y, x)) = Some (y, x).
Proof.
  intros Hy Hx. pose proof (cidx_lt h w y x Hy Hx) as L.
  destruct (nth_error (cells h w) (cidx w (y, x))) as [[y' x']|] eqn:E.
  - pose proof (map_nth_error (cidx w) _ _ E) as M. rewrite nr_cells_cidx, nr_nth_seq in M by exact L.
    injection M as M. apply nth_error_In, cells_in in E. f_equal. symmetry. apply (nr_cidx_inj w); tauto.
  - apply nth_error_None in E. rewrite nr_cells_length in E. lia.
Qed.

Lemma ok_nanro_ct vs es : forallb (ok vs true) es = true -> ok vs false (nanro_ct es) = true.
Proof.
  intros H. destruct es as [|e r]; [reflexivity|]. unfold nanro_ct. rewrite ok_add_map by discriminate.
  rewrite forallb_forall in *. intros x Hx. rewrite ok_cond. apply H. exact Hx.
Qed.

Lemma forallb_ok_opt vs (c : bool) e : (c = true -> ok vs true e = true) -> forallb (ok vs true) (if c then [e] else []) = true.
Proof. destruct c; [|reflexivity]. intros H. cbn [forallb]. rewrite H by reflexivity. reflexivity. Qed.

Section W.
  Variables (h w : nat) (room : list Z).
  Notation n := (h * w).
  Notation size := (nanro_size h w room).
  Let vars0 := repeat DBool n ++ map (fun c => DInt 0 (size (nanro_rid room w c))) (cells h w).

  Lemma vars0_length : length vars0 = n + n.
  Proof. unfold vars0. rewrite app_length, repeat_length, map_length, nr_cells_length. reflexivity. Qed.

  Lemma ok_has_idx rest i : i < n -> ok (vars0 ++ rest) true (BVar i) = true.
  Proof.
    intros H. rewrite ok_bvar. unfold vars0. rewrite <- app_assoc, nth_error_app1 by (rewrite repeat_length; exact H).
    rewrite nth_error_repeat by exact H. reflexivity.
  Qed.

  Lemma ok_av rest y x : y < h -> x < w -> ok (vars0 ++ rest) false (nanro_av h w room (y, x)) = true.
  Proof.
    intros Hy Hx. pose proof (cidx_lt h w y x Hy Hx) as L. unfold nanro_av. rewrite ok_ivar. unfold vars0.
    rewrite <- app_assoc. rewrite nth_error_app2 by (rewrite repeat_length; lia). rewrite repeat_length.
    replace (n + cidx w (y, x) - n) with (cidx w (y, x)) by lia.
    rewrite nth_error_app1 by (rewrite map_length, nr_cells_length; exact L).
    rewrite nth_error_map, nr_nth_cell by assumption. cbn [option_map]. rewrite !Z.eqb_refl. reflexivity.
  Qed.

  Lemma ok_eq0 rest y x : y < h -> x < w -> ok (vars0 ++ rest) true (nanro_eq0 h w room (y, x)) = true.
  Proof. intros Hy Hx. unfold nanro_eq0. rewrite ok_eq, ok_av, ok_pyint by assumption. reflexivity. Qed.
  Lemma ok_ne0 rest y x : y < h -> x < w -> ok (vars0 ++ rest) true (nanro_ne0 h w room (y, x)) = true.
  Proof. intros Hy Hx. unfold nanro_ne0. rewrite ok_ne, ok_av, ok_pyint by assumption. reflexivity. Qed.

  Lemma pre_wf : wf_state (nanro_pre h w room) /\ wf_keys (nanro_pre h w room).
  Proof.
    split.
    - unfold wf_state. apply wf_cons_ok. unfold nanro_pre. cbn [vars Program.cons]. fold vars0.
      rewrite <- (app_nil_r vars0). rewrite forallb_map. apply forallb_cells. intros y x Hy Hx.
      rewrite ok_iff, ok_ne0 by assumption. rewrite ok_has_idx by (exact (cidx_lt h w y x Hy Hx)). reflexivity.
    - unfold wf_keys, nanro_pre. cbn [vars keys]. rewrite !app_length, !repeat_length, map_length, nr_cells_length. reflexivity.
  Qed.

  Lemma in_region_board i c : In c (region_cells h w room i) -> fst c < h /\ snd c < w.
  Proof. unfold region_cells. intros H. apply filter_In in H. destruct H as [H _]. destruct c. apply cells_in in H. exact H. Qed.

  Section Extra.
    Variables (A : list vdecl) (k : nat).
    Let more := map (fun i => DInt 1 (size i)) (seq 0 k).
    Let vsF := (vars0 ++ A) ++ more.
    Let base := length (vars0 ++ A).

    Lemma ok_avF y x : y < h -> x < w -> ok vsF false (nanro_av h w room (y, x)) = true.
    Proof. intros Hy Hx. unfold vsF. rewrite <- app_assoc. apply ok_av; assumption. Qed.
    Lemma ok_eq0F y x : y < h -> x < w -> ok vsF true (nanro_eq0 h w room (y, x)) = true.
    Proof. intros Hy Hx. unfold vsF. rewrite <- app_assoc. apply ok_eq0; assumption. Qed.
    Lemma ok_ne0F y x : y < h -> x < w -> ok vsF true (nanro_ne0 h w room (y, x)) = true.
    Proof. intros Hy Hx. unfold vsF. rewrite <- app_assoc. apply ok_ne0; assumption. Qed.

    Lemma ok_neF i : i < k -> ok vsF false (nanro_ne h w room base i) = true.
    Proof.
      intros Hi. unfold nanro_ne. rewrite ok_ivar. unfold vsF, base. rewrite nth_error_app2 by lia.
      replace (length (vars0 ++ A) + i - length (vars0 ++ A)) with i by lia.
      unfold more. rewrite nth_error_map, nr_nth_seq by exact Hi. cbn [option_map]. rewrite !Z.eqb_refl. reflexivity.
    Qed.

    Lemma ok_differF y x y' x' : y < h -> x < w -> y' < h -> x' < w ->
      ok vsF true (nanro_differ h w room (y, x) (y', x')) = true.
    Proof.
      intros. unfold nanro_differ. rewrite !ok_or. cbn [forallb]. rewrite !ok_or. cbn [forallb].
      rewrite ok_ne, !ok_eq0F, !ok_avF by assumption. reflexivity.
    Qed.

    Lemma nanro_block_ok i : i < k -> forallb (ok vsF true) (nanro_block h w room base i) = true.
    Proof.
      intros Hi. unfold nanro_block. cbn [forallb]. apply andb_true_intro. split.
      - rewrite ok_eq, ok_neF by exact Hi. cbn [andb]. apply ok_nanro_ct. rewrite forallb_map. apply forallb_In.
        intros [y x] Hc. apply in_region_board in Hc. apply ok_ne0F; tauto.
      - rewrite forallb_map. apply forallb_In. intros [y x] Hc. apply in_region_board in Hc. cbn [fst snd] in Hc.
        rewrite ok_or. cbn [forallb]. rewrite ok_eq0F, ok_eq, ok_avF, ok_neF by tauto. reflexivity.
    Qed.

    Lemma nanro_cell_ok num y x : y < h -> x < w -> forallb (ok vsF true) (nanro_cell h w room num (y, x)) = true.
    Proof.
      intros Hy Hx. unfold nanro_cell. rewrite !forallb_app. repeat (apply andb_true_intro; split).
      - apply forallb_ok_opt. intros _. rewrite ok_eq, ok_avF, ok_pyint by assumption. reflexivity.
      - apply forallb_ok_opt. intros C. apply andb_prop in C. destruct C as [C1 C2].
        apply Nat.ltb_lt in C1. apply Nat.ltb_lt in C2.
        rewrite !ok_or. cbn [forallb]. rewrite !ok_or. cbn [forallb]. rewrite !ok_or. cbn [forallb].
        rewrite !ok_eq0F by lia. reflexivity.
      - apply forallb_ok_opt. intros C. apply andb_prop in C. destruct C as [C1 _]. apply Nat.ltb_lt in C1.
        apply ok_differF; lia.
      - apply forallb_ok_opt. intros C. apply andb_prop in C. destruct C as [C1 _]. apply Nat.ltb_lt in C1.
        apply ok_differF; lia.
    Qed.

    Lemma nanro_constraints_ok num : forallb (ok vsF true) (nanro_constraints h w room num k base) = true.
    Proof.
      unfold nanro_constraints. rewrite forallb_app, !forallb_flat_map. apply andb_true_intro. split.
      - apply forallb_seq. intros i Hi. apply nanro_block_ok. lia.
      - apply forallb_cells. intros y x Hy Hx. apply nanro_cell_ok; assumption.
    Qed.
  End Extra.
End W.

Lemma nanro_model_wf pb st : solve_nanro_model pb = Ok st -> wf_state st /\ wf_keys st.
Proof.
  unfold solve_nanro_model. set (h := dim pb 0). set (w := dim pb 1). set (room := sec pb 1). set (num := sec pb 2).
  destruct (_ || _); [discriminate|].
  destruct (post_avc _ _ _ false false) as [st1|] eqn:E; [|discriminate].
  destruct (Nat.ltb _ _); [discriminate|].
  intros H. inversion H; subst st; clear H.
  destruct (pre_wf h w room) as [W0 K0].
  destruct (post_avc_wf _ _ _ _ _ E W0 K0) as [[W1 K1] [Hv Hk]].
  - unfold nanro_pre. cbn [vars]. rewrite <- (app_nil_r (_ ++ _)). rewrite forallb_map. apply forallb_seq. intros i Hi.
    apply ok_has_idx. lia.
  - split.
    + unfold wf_state. cbn [vars Program.cons]. apply wf_cons_app; [apply wf_cons_more; exact W1|].
      apply wf_cons_ok. unfold next_id. rewrite Hv. unfold nanro_pre. cbn [vars].
      apply nanro_constraints_ok.
    + unfold wf_keys in *. cbn [vars keys]. rewrite !app_length, K1, repeat_length, map_length, seq_length. reflexivity.
Qed.

Theorem nanro_solve_reports : forall oracle, oracle_sound_on oracle -> oracle_complete_on oracle ->
  forall h w room num st,
  solve_nanro_model [[Z.of_nat h; Z.of_nat w]; room; num] = Ok st ->
  solve_reports oracle st (seq (h * w) (h * w)) (rules_nanro [[Z.of_nat h; Z.of_nat w]; room; num]).
Proof.
  intros oracle Os Oc h w room num st Hst.
  apply (solve_reports_intro oracle gsem_avc); try assumption.
  - exact (nanro_model_wf _ _ Hst).
  - rewrite (nanro_keys h w room num st Hst). intros i Hi. apply in_seq in Hi.
    rewrite nth_error_app2 by (rewrite repeat_length; lia). rewrite repeat_length.
    rewrite nth_error_app1 by (rewrite repeat_length; lia). apply nth_error_repeat. lia.
  - intros ans. exact (nanro_exact h w room num st ans Hst).
Qed.
