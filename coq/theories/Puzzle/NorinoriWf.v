(* C11: the program of solve_norinori is well formed on every board; composition with C02 (solve_reports). *)
From Coq Require Import ZArith List Bool Arith Lia.
From Cspuz Require Import Lib.PyErr Core.Expr Core.Program Backend.Z3 Backend.Z3Oracle Backend.Z3SolveProofs
     Backend.SolveLoop Backend.SolveZ3Proofs
     Puzzle.PuzzleBase Puzzle.ModelBase Puzzle.ModelLemmas Puzzle.SatAbs Puzzle.SolveCompose Puzzle.WfLemmas
     Puzzle.Rules_norinori Puzzle.Norinori Puzzle.NorinoriProofs.
Import ListNotations.
Local Open Scope nat_scope.

Lemma region_cells_in h w region i y x : In (y, x) (region_cells h w region i) -> y < h /\ x < w.
Proof. unfold region_cells. intros H. apply filter_In in H. destruct H as [H _]. apply cells_in in H. exact H. Qed.

Lemma ok_region_ct h w region i :
  ok (repeat DBool (h * w)) false (ct_vars (map (cidx w) (region_cells h w region i))) = true.
Proof.
  apply ok_ct_vars_lt. intros k Hk. apply in_map_iff in Hk. destruct Hk as [[y x] [<- Hc]].
  apply region_cells_in in Hc. apply ok_cell; tauto.
Qed.

Lemma ok_nbr4_ct h w y x : y < h -> x < w ->
  ok (repeat DBool (h * w)) false (ct_vars (map (cidx w) (nbr4 h w y x))) = true.
Proof.
  intros Hy Hx. apply ok_ct_vars_lt. intros k Hk. apply in_map_iff in Hk. destruct Hk as [[y' x'] [<- Hc]].
  apply (nbr4_in h w y x) in Hc; try assumption. apply ok_cell; tauto.
Qed.

Lemma norinori_constraints_ok h w region :
  forallb (ok (repeat DBool (h * w)) true) (norinori_constraints h w region) = true.
Proof.
  unfold norinori_constraints. rewrite forallb_app, !forallb_map. apply andb_true_intro. split.
  - apply forallb_cells. intros y x Hy Hx. autorewrite with okdb.
    rewrite ok_cell, ok_nbr4_ct by assumption. reflexivity.
  - apply forallb_In. intros i _. autorewrite with okdb. rewrite ok_region_ct. reflexivity.
Qed.

Lemma norinori_model_wf pb st : solve_norinori_model pb = Ok st -> wf_state st /\ wf_keys st.
Proof.
  unfold solve_norinori_model. intros H. inversion H; subst st; clear H.
  apply wf_bool_grid_state. apply norinori_constraints_ok.
Qed.

Theorem norinori_solve_reports : forall oracle, oracle_sound_on oracle -> oracle_complete_on oracle ->
  forall h w region st,
  solve_norinori_model [[Z.of_nat h; Z.of_nat w]; region] = Ok st ->
  solve_reports oracle st (seq 0 (h * w)) (rules_norinori [[Z.of_nat h; Z.of_nat w]; region]).
Proof.
  intros oracle Os Oc h w region st Hst.
  apply (solve_reports_intro oracle no_graph); try assumption.
  - exact (norinori_model_wf _ _ Hst).
  - unfold solve_norinori_model in Hst. rewrite dim2_0, dim2_1 in Hst. inversion Hst; subst st. simpl.
    apply repeat_keys.
  - intros ans. exact (norinori_exact h w region st ans Hst).
Qed.
