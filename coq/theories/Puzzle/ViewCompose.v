(* C11 Tier 1 - composition with property C04 for a solver that declares a boolean grid, calls
   graph.active_vertices_connected on it (auxiliary-variable encoding, model Graph/Avc.v::post_avc on the grid
   graph: n ranks and n root flags, ids n .. 3n-1) and afterwards declares FURTHER variables [more] (ids from 3n)
   and posts constraints [extra] over the grid variables and the later ones (cspuz/puzzle/view.py).
     compose_model    : an assignment is a model of the final state exactly when the ranks are in range, the
                        certificate checker of C04 accepts, the later variables are in their domains and the
                        later constraints hold
     compose_sound    : ... and then the grid pattern is connected
     compose_complete : for a connected grid pattern the variables n .. 3n-1 of any assignment can be overwritten
                        (splice_avc: every other variable keeps its value) so that the first two conditions hold
   Uses C04's closed theorems avc_eval / avc_cert. *)
From Coq Require Import ZArith List Bool Arith Lia.
From Cspuz Require Import Lib.PyErr Core.Expr Core.Program Graph.GraphModel Graph.ReachProofs
     Graph.Avc Graph.AvcCert Graph.AvcSem Graph.AvcProofs
     Puzzle.PuzzleBase Puzzle.SatAbs Puzzle.ModelBase Puzzle.ModelLemmas Puzzle.CreekProofs.
Import ListNotations.
Local Open Scope nat_scope.

(* the certificate checker looks at its three functions on the vertices of the graph only *)
Lemma cert_avc_ext_below g act1 act2 rank1 rank2 root1 root2 :
  wf_graph g = true ->
  (forall v, v < nv g -> act1 v = act2 v) -> (forall v, v < nv g -> rank1 v = rank2 v) ->
  (forall v, v < nv g -> root1 v = root2 v) ->
  cert_avc g false act1 rank1 root1 = cert_avc g false act2 rank2 root2.
Proof.
  intros Hwf Ha Hr Ho. unfold cert_avc. f_equal.
  - apply ModelLemmas.forallb_ext_in. intros i Hi. apply in_seq in Hi.
    assert (Hl : lower_cnt g act1 rank1 i = lower_cnt g act2 rank2 i).
    { unfold lower_cnt. f_equal. apply map_ext_in. intros [j k] Hjk.
      destruct (incident_lt g i j k Hwf Hjk) as [_ Hj]. cbn [fst].
      rewrite (Hr j), (Ha j), (Hr i) by lia. reflexivity. }
    unfold vertex_ok. cbv iota. rewrite (Ha i), (Ho i), Hl by lia. reflexivity.
  - f_equal. f_equal. apply map_ext_in. intros j Hj. apply in_seq in Hj. rewrite (Ho j) by lia. reflexivity.
Qed.

(* overwrite the variables n .. 2n-1 (ranks) and 2n .. 3n-1 (root flags) of an assignment *)
Definition splice_avc (n : nat) (en : env) (rank : nat -> Z) (root : nat -> bool) : env :=
  {| eb := fun i => if Nat.leb (n + n) i && Nat.ltb i (3 * n) then root (i - (n + n)) else eb en i;
     ei := fun i => if Nat.leb n i && Nat.ltb i (n + n) then rank (i - n) else ei en i |}.

Lemma splice_eb_low n en rank root i : i < n -> eb (splice_avc n en rank root) i = eb en i.
Proof. intros H. cbn [eb splice_avc]. destruct (Nat.leb_spec (n + n) i); [lia|]. reflexivity. Qed.
Lemma splice_eb_high n en rank root i : 3 * n <= i -> eb (splice_avc n en rank root) i = eb en i.
Proof.
  intros H. cbn [eb splice_avc]. destruct (Nat.ltb_spec i (3 * n)); [lia|]. rewrite andb_false_r. reflexivity.
Qed.
Lemma splice_ei_low n en rank root i : i < n -> ei (splice_avc n en rank root) i = ei en i.
Proof. intros H. cbn [ei splice_avc]. destruct (Nat.leb_spec n i); [lia|]. reflexivity. Qed.
Lemma splice_ei_high n en rank root i : n + n <= i -> ei (splice_avc n en rank root) i = ei en i.
Proof.
  intros H. cbn [ei splice_avc]. destruct (Nat.ltb_spec i (n + n)); [lia|]. rewrite andb_false_r. reflexivity.
Qed.
Lemma splice_rank n en rank root j : j < n -> ei (splice_avc n en rank root) (n + j) = rank j.
Proof.
  intros H. cbn [ei splice_avc]. destruct (Nat.leb_spec n (n + j)); [|lia].
  destruct (Nat.ltb_spec (n + j) (n + n)); [|lia]. simpl. f_equal. lia.
Qed.
Lemma splice_root n en rank root j : j < n -> eb (splice_avc n en rank root) (n + n + j) = root j.
Proof.
  intros H. cbn [eb splice_avc]. destruct (Nat.leb_spec (n + n) (n + n + j)); [|lia].
  destruct (Nat.ltb_spec (n + n + j) (3 * n)); [|lia]. simpl. f_equal. lia.
Qed.

Section Compose.
  Variables h w : nat.
  Notation n := (h * w).
  Notation acts := (map BVar (seq 0 (h * w))).
  Notation g := (grid_graph h w).
  Variables (st0 st1 st : state) (more : list vdecl) (extra : list expr).
  Hypothesis Hv0 : vars st0 = repeat DBool n.
  Hypothesis Hc0 : Program.cons st0 = [].
  Hypothesis Hp : post_avc st0 acts g false false = Ok st1.
  Hypothesis Hvars : vars st = vars st1 ++ more.
  Hypothesis Hcons : Program.cons st = Program.cons st1 ++ extra.

  Definition ranks_ok (en : env) : Prop := forall j, j < n -> (0 <= ei en (n + j) <= Z.of_nat n - 1)%Z.
  Definition cert_ok (en : env) : Prop :=
    cert_avc g false (pattern en acts) (fun j => ei en (n + j)) (fun j => eb en (n + n + j)) = true.

  Lemma compose_nonempty : 1 <= n.
  Proof. exact (post_avc_nonempty _ _ _ _ _ Hp). Qed.

  Lemma compose_model en :
    model_of gsem_avc en st <->
    (ranks_ok en /\ cert_ok en /\ in_bounds_from en (3 * n) more = true /\
     forallb (holds gsem_avc en) extra = true).
  Proof.
    destruct (AvcSem.avc_eval _ _ _ _ _ Hp) as [Hv [_ [cs [Hc Hev]]]].
    assert (Hn0 : next_id st0 = n) by (unfold next_id; rewrite Hv0; apply repeat_length).
    change (nv g) with n in *. rewrite Hn0 in Hev.
    unfold model_of, in_bounds, satisfies. rewrite Hvars, Hcons, Hv, Hc, Hc0, Hv0. cbn [app].
    rewrite !in_bounds_from_app, !forallb_app, !in_bounds_from_bools. cbn [andb].
    rewrite !app_length, !repeat_length. cbn [Nat.add].
    replace (n + (n + n)) with (3 * n) by lia.
    rewrite (Hev en (acts_def n en)). rewrite !andb_true_iff, in_bounds_from_ints.
    unfold ranks_ok, cert_ok. tauto.
  Qed.

  Lemma pattern_low en v : v < n -> pattern en acts v = eb en v.
  Proof. intros H. rewrite pattern_acts. destruct (Nat.ltb_spec v n); [reflexivity|lia]. Qed.

  (* a model makes the grid pattern connected *)
  Lemma compose_sound en : ranks_ok en -> cert_ok en -> connected_b g (pattern en acts) = true.
  Proof.
    intros Hr Hce. apply (connected_b_spec _ _ (grid_wf h w)).
    apply (cert_sound g false (pattern en acts) (fun j => ei en (n + j)) (fun j => eb en (n + n + j)) (grid_wf h w));
      [|exact Hce].
    intros j Hj. apply Hr. exact Hj.
  Qed.

  (* a connected grid pattern can be certified without touching any other variable *)
  Lemma compose_complete en0 :
    connected_b g (pattern en0 acts) = true ->
    exists rank root, let en := splice_avc n en0 rank root in ranks_ok en /\ cert_ok en.
  Proof.
    intros Hcn. apply (connected_b_spec _ _ (grid_wf h w)) in Hcn.
    destruct (cert_complete g false (pattern en0 acts) (grid_wf h w) compose_nonempty Hcn) as [Hr Hce].
    exists (avc_rank g (pattern en0 acts)), (avc_root g (pattern en0 acts)). cbv zeta. split.
    - intros j Hj. rewrite splice_rank by exact Hj. apply Hr. exact Hj.
    - unfold cert_ok. rewrite <- Hce. apply cert_avc_ext_below; [apply grid_wf| | |]; change (nv g) with n; intros v Hv.
      + rewrite !pattern_low by exact Hv. apply splice_eb_low. exact Hv.
      + apply splice_rank. exact Hv.
      + apply splice_root. exact Hv.
  Qed.
End Compose.
