"""T tie of C16: a fail-closed `ast` translator of the codec parts of cspuz/puzzle/<p>.py.

For every module of MODULES it reads, from the *source text* under vlib.REPO,
  <P>_COMBINATOR = <constructor expression>
  def serialize_<p>(...)    (three accepted shapes, see _ser_wrapper)
  def deserialize_<p>(url)  (return deserialize_problem_as_url(<P>_COMBINATOR, url, ...))
and produces (a) a Python description used by the correspondence check and (b)
coq/theories/Gen/Codecs.v with the same data as Codec/Comb.v terms and Codec/Puzzles.v
wrapper records.  Anything that is not recognised raises TranslateError.

Terms are the tuples of harness/c15gen.py plus ("C", k) for a Combinator subclass of the
puzzle module (k = 0: yajilin.YajilinClue, modelled by hand in Codec/Yajilin.v and tied by
the correspondence check only).
"""
import ast
import os

import vlib

MODULES = ["nurikabe", "masyu", "slitherlink", "sudoku", "nurimisaki", "yajilin", "heyawake", "lits", "norinori"]
CUSTOM_CLASSES = {"YajilinClue": 0}

# constructor name -> (positional parameter names, defaults)
SIGS = {
    "FixStr": (["s"], {}),
    "Dict": (["before", "after"], {}),
    "Spaces": (["space", "smallest"], {}),
    "DecInt": ([], {}),
    "HexInt": ([], {}),
    "IntSpaces": (["space", "max_int", "max_num_spaces"], {}),
    "MultiDigit": (["base", "digits"], {}),
    "Seq": (["base", "n"], {}),
    "Grid": (["base", "height", "width"], {"height": None, "width": None}),
    "Rooms": (["skip_on_error", "allow_redundant_border"], {"skip_on_error": False, "allow_redundant_border": False}),
}


class TranslateError(Exception):
    pass


def _fail(node, msg):
    raise TranslateError("%s (line %s)" % (msg, getattr(node, "lineno", "?")))


def _const(node):
    """int / str / bool / None constants, negative ints, lists and tuples of those"""
    if isinstance(node, ast.Constant) and (node.value is None or isinstance(node.value, (int, str, bool))):
        return node.value
    if isinstance(node, ast.UnaryOp) and isinstance(node.op, ast.USub) and isinstance(node.operand, ast.Constant) \
            and type(node.operand.value) is int:
        return -node.operand.value
    if isinstance(node, ast.List):
        return [_const(e) for e in node.elts]
    if isinstance(node, ast.Tuple):
        return tuple(_const(e) for e in node.elts)
    _fail(node, "unsupported constant expression " + ast.dump(node)[:80])


def _bind(node, name):
    """arguments of a constructor call as a dict parameter -> ast node"""
    params, defaults = SIGS[name]
    if len(node.args) > len(params):
        _fail(node, "too many arguments for " + name)
    got = {}
    for p, a in zip(params, node.args):
        if isinstance(a, ast.Starred):
            _fail(node, "starred argument")
        got[p] = a
    for kw in node.keywords:
        if kw.arg is None or kw.arg not in params or kw.arg in got:
            _fail(node, "unknown or repeated keyword %r for %s" % (kw.arg, name))
        got[kw.arg] = kw.value
    for p in params:
        if p not in got and p not in defaults:
            _fail(node, "missing argument %s for %s" % (p, name))
    return got, defaults


def _as_list(v):
    return v if isinstance(v, list) else [v]


def term_of(node, imported, classes):
    if not (isinstance(node, ast.Call) and isinstance(node.func, ast.Name)):
        _fail(node, "combinator expression must be a constructor call: " + ast.dump(node)[:80])
    name = node.func.id
    if name in classes:
        if node.args or node.keywords:
            _fail(node, "arguments for " + name)
        return ("C", CUSTOM_CLASSES[name])
    if name not in imported:
        _fail(node, "constructor %s is not imported from cspuz.problem_serializer" % name)
    if name in ("OneOf", "Tupl"):
        if node.keywords:
            _fail(node, "keywords for " + name)
        items = []
        for a in node.args:
            if isinstance(a, ast.List):
                items += [term_of(e, imported, classes) for e in a.elts]
            elif isinstance(a, ast.Starred):
                _fail(node, "starred argument")
            else:
                items.append(term_of(a, imported, classes))
        return ("O" if name == "OneOf" else "T", items)
    if name == "ValuedRooms":
        if len(node.args) != 1:
            _fail(node, "ValuedRooms takes one positional argument")
        kw = {"skip_on_error": False, "allow_redundant_border": False}
        for k in node.keywords:
            if k.arg not in kw:
                _fail(node, "unknown keyword %r for ValuedRooms" % k.arg)
            v = _const(k.value)
            if not isinstance(v, bool):
                _fail(node, "flag must be a bool constant")
            kw[k.arg] = v
        return ("V", term_of(node.args[0], imported, classes), kw["skip_on_error"], kw["allow_redundant_border"])
    if name not in SIGS:
        _fail(node, "unknown constructor " + name)
    got, defaults = _bind(node, name)

    def val(p):
        return _const(got[p]) if p in got else defaults[p]

    def intval(p):
        v = val(p)
        if type(v) is not int:
            _fail(node, "%s.%s must be an int constant" % (name, p))
        return v

    if name == "FixStr":
        s = val("s")
        if not isinstance(s, str):
            _fail(node, "FixStr needs a str")
        return ("F", s)
    if name == "Dict":
        b, a = _as_list(val("before")), _as_list(val("after"))
        if len(b) != len(a) or not all(isinstance(x, str) for x in a):
            _fail(node, "Dict arguments")
        return ("D", b, a)
    if name == "Spaces":
        sm = val("smallest")
        if not (isinstance(sm, str) and len(sm) == 1):
            _fail(node, "Spaces smallest")
        return ("S", val("space"), sm)
    if name == "DecInt":
        return ("I",)
    if name == "HexInt":
        return ("H",)
    if name == "IntSpaces":
        return ("P", val("space"), intval("max_int"), intval("max_num_spaces"))
    if name == "MultiDigit":
        return ("M", intval("base"), intval("digits"))
    if name == "Seq":
        return ("Q", term_of(got["base"], imported, classes), intval("n"))
    if name == "Grid":
        h, w = val("height"), val("width")
        if (h is None) != (w is None):
            _fail(node, "Grid height/width")
        return ("G", term_of(got["base"], imported, classes), None if h is None else (h, w))
    if name == "Rooms":
        s, a = val("skip_on_error"), val("allow_redundant_border")
        if not (isinstance(s, bool) and isinstance(a, bool)):
            _fail(node, "Rooms flags")
        return ("R", s, a)
    _fail(node, "unhandled constructor " + name)


# ---------------------------------------------------------------- wrappers

def _is_name(n, s):
    return isinstance(n, ast.Name) and n.id == s


def _dump(n):
    return ast.dump(n, annotate_fields=False)


def _parse_stmt(src):
    return _dump(ast.parse(src).body[0])


def _args(fn):
    a = fn.args
    if a.kwonlyargs or a.kwarg or a.defaults or a.kw_defaults or a.posonlyargs:
        _fail(fn, "unsupported parameter kinds in " + fn.name)
    return [x.arg for x in a.args], (a.vararg.arg if a.vararg else None)


def _body(fn):
    b = list(fn.body)
    if b and isinstance(b[0], ast.Expr) and isinstance(b[0].value, ast.Constant) and isinstance(b[0].value.value, str):
        b = b[1:]                                      # docstring
    return b


def _ser_call(node, comb_name, fn):
    """return serialize_problem_as_url(COMB, "name", height, width, <problem expr>) -> (puzzle name, problem expr)"""
    if not (isinstance(node, ast.Return) and isinstance(node.value, ast.Call) and _is_name(node.value.func, "serialize_problem_as_url")):
        _fail(node, fn.name + ": expected `return serialize_problem_as_url(...)`")
    c = node.value
    if c.keywords or len(c.args) != 5:
        _fail(node, fn.name + ": serialize_problem_as_url must get exactly 5 positional arguments")
    if not _is_name(c.args[0], comb_name):
        _fail(node, fn.name + ": combinator argument is not " + comb_name)
    nm = _const(c.args[1])
    if not isinstance(nm, str):
        _fail(node, fn.name + ": puzzle name must be a str constant")
    if not (_is_name(c.args[2], "height") and _is_name(c.args[3], "width")):
        _fail(node, fn.name + ": expected (.., height, width, ..) in this order")
    return nm, c.args[4]


HEYAWAKE_IF = _parse_stmt(
    "if len(problem) == 1:\n    rooms, clues = convert_from_rectangular_repr(problem[0])\nelse:\n    rooms, clues = problem\n")


def _ser_wrapper(fn, comb_name):
    params, vararg = _args(fn)
    body = _body(fn)
    if params == ["problem"] and vararg is None:
        if len(body) != 3 or _dump(body[0]) != _parse_stmt("height = len(problem)") \
                or _dump(body[1]) != _parse_stmt("width = len(problem[0])"):
            _fail(fn, fn.name + ": expected height = len(problem); width = len(problem[0]); return ...")
        nm, pb = _ser_call(body[2], comb_name, fn)
        if not _is_name(pb, "problem"):
            _fail(fn, fn.name + ": problem argument")
        return {"name": nm, "size": "problem"}
    if len(params) == 3 and params[:2] == ["height", "width"] and vararg is None:
        if len(body) != 1:
            _fail(fn, fn.name + ": expected a single return")
        nm, pb = _ser_call(body[0], comb_name, fn)
        if not _is_name(pb, params[2]):
            _fail(fn, fn.name + ": problem argument")
        return {"name": nm, "size": "args"}
    if params == ["height", "width"] and vararg == "problem":
        if len(body) != 2 or _dump(body[0]) != HEYAWAKE_IF:
            _fail(fn, fn.name + ": expected the (rooms, clues) / rectangular-representation dispatch")
        nm, pb = _ser_call(body[1], comb_name, fn)
        if _dump(pb) != _dump(ast.parse("(rooms, clues)").body[0].value):
            _fail(fn, fn.name + ": problem argument must be (rooms, clues)")
        return {"name": nm, "size": "rooms-clues"}
    _fail(fn, fn.name + ": unrecognised signature")


def _de_wrapper(fn, comb_name):
    params, vararg = _args(fn)
    body = _body(fn)
    if params != ["url"] or vararg is not None or len(body) != 1:
        _fail(fn, fn.name + ": expected def (url): return deserialize_problem_as_url(...)")
    node = body[0]
    if not (isinstance(node, ast.Return) and isinstance(node.value, ast.Call) and _is_name(node.value.func, "deserialize_problem_as_url")):
        _fail(fn, fn.name + ": expected `return deserialize_problem_as_url(...)`")
    c = node.value
    names = ["combinator", "url", "allowed_puzzles", "allow_failure", "return_size"]
    got = {}
    if len(c.args) > 5:
        _fail(fn, "too many arguments")
    for p, a in zip(names, c.args):
        got[p] = a
    for kw in c.keywords:
        if kw.arg not in names or kw.arg in got:
            _fail(fn, fn.name + ": unknown or repeated keyword %r" % kw.arg)
        got[kw.arg] = kw.value
    if not ("combinator" in got and _is_name(got["combinator"], comb_name)):
        _fail(fn, fn.name + ": combinator argument is not " + comb_name)
    if not ("url" in got and _is_name(got["url"], "url")):
        _fail(fn, fn.name + ": url argument")
    al = _const(got["allowed_puzzles"]) if "allowed_puzzles" in got else None
    if not (al is None or isinstance(al, str) or (isinstance(al, list) and all(isinstance(x, str) for x in al))):
        _fail(fn, fn.name + ": allowed_puzzles must be None, a str or a list of str")
    af = _const(got["allow_failure"]) if "allow_failure" in got else False
    rs = _const(got["return_size"]) if "return_size" in got else False
    if not (isinstance(af, bool) and isinstance(rs, bool)):
        _fail(fn, fn.name + ": flags must be bool constants")
    return {"allowed": al, "allow_failure": af, "return_size": rs}


def translate_module(mod):
    path = os.path.join(vlib.REPO, "cspuz", "puzzle", mod + ".py")
    with open(path) as f:
        tree = ast.parse(f.read(), path)
    imported, classes = set(), set()
    combs, funcs = {}, {}
    for node in tree.body:
        if isinstance(node, ast.ImportFrom) and node.module == "cspuz.problem_serializer" and node.level == 0:
            for a in node.names:
                if a.asname is not None:
                    _fail(node, "import ... as ... from problem_serializer")
                imported.add(a.name)
        elif isinstance(node, ast.ClassDef) and node.name in CUSTOM_CLASSES:
            if not (len(node.bases) == 1 and _is_name(node.bases[0], "Combinator")):
                _fail(node, node.name + " must derive from Combinator")
            classes.add(node.name)
        elif isinstance(node, ast.Assign) and len(node.targets) == 1 and isinstance(node.targets[0], ast.Name) \
                and node.targets[0].id.endswith("_COMBINATOR"):
            if node.targets[0].id in combs:
                _fail(node, "combinator assigned twice")
            combs[node.targets[0].id] = node.value
        elif isinstance(node, ast.FunctionDef) and (node.name.startswith("serialize_") or node.name.startswith("deserialize_")):
            if node.decorator_list:
                _fail(node, "decorated codec function")
            if node.name in funcs:
                _fail(node, "function defined twice")
            funcs[node.name] = node
    for nm in ("serialize_problem_as_url", "deserialize_problem_as_url"):
        if nm not in imported:
            raise TranslateError("%s: %s is not imported from cspuz.problem_serializer" % (mod, nm))
    # names must not be rebound at module level
    for node in tree.body:
        if isinstance(node, (ast.Assign, ast.AugAssign, ast.AnnAssign)):
            tg = node.targets if isinstance(node, ast.Assign) else [node.target]
            for t in tg:
                for n in ast.walk(t):
                    if isinstance(n, ast.Name) and (n.id in imported or n.id in CUSTOM_CLASSES):
                        _fail(node, "codec name %s is rebound" % n.id)
        elif isinstance(node, (ast.FunctionDef, ast.ClassDef)) and node.name in imported:
            _fail(node, "codec name %s is redefined" % node.name)
    if len(combs) != 1:
        raise TranslateError("%s: expected exactly one *_COMBINATOR assignment, found %s" % (mod, sorted(combs)))
    cname, cexpr = next(iter(combs.items()))
    term = term_of(cexpr, imported, classes)
    sers = [f for f in funcs if f.startswith("serialize_")]
    des = [f for f in funcs if f.startswith("deserialize_")]
    if len(sers) != 1 or len(des) != 1:
        raise TranslateError("%s: expected one serialize_* and one deserialize_* function, found %s" % (mod, sorted(funcs)))
    return {"module": mod, "comb_name": cname, "term": term, "custom": 1 if classes else 0,
            "ser_fn": sers[0], "de_fn": des[0],
            "ser": _ser_wrapper(funcs[sers[0]], cname), "de": _de_wrapper(funcs[des[0]], cname)}


def translate_all():
    return {m: translate_module(m) for m in MODULES}


# ---------------------------------------------------------------- tokens for the runner (c15gen syntax + C k)

def term_tok(t):
    import c15gen as G
    k = t[0]
    if k == "C":
        return "C %d" % t[1]
    if k in ("O", "T"):
        return "%s %d %s" % (k, len(t[1]), " ".join(term_tok(x) for x in t[1]))
    if k == "Q":
        return "Q %s %d" % (term_tok(t[1]), t[2])
    if k == "G":
        return "G %s %s" % (term_tok(t[1]), "-" if t[2] is None else "%d %d" % t[2])
    if k == "V":
        return "V %s %d %d" % (term_tok(t[1]), int(t[2]), int(t[3]))
    return G.term_tok(t)


# ---------------------------------------------------------------- Coq text

def coq_str(s):
    if not all(ord(c) < 256 for c in s):
        raise TranslateError("non Latin-1 text %r" % s)
    return "(lit [%s]%%nat)" % "; ".join(str(ord(c)) for c in s)


def coq_z(n):
    return "(%d)" % n if n < 0 else "%d" % n


def coq_pv(v):
    if v is None:
        return "VNone"
    if isinstance(v, bool):
        raise TranslateError("bool constant in a combinator")
    if isinstance(v, int):
        return "(VInt %s)" % coq_z(v)
    if isinstance(v, str):
        return "(VStr %s)" % coq_str(v)
    if isinstance(v, list):
        return "(VList [%s])" % "; ".join(coq_pv(x) for x in v)
    if isinstance(v, tuple):
        return "(VTup [%s])" % "; ".join(coq_pv(x) for x in v)
    raise TranslateError("constant %r" % (v,))


def coq_bool(b):
    return "true" if b else "false"


def coq_term(t):
    k = t[0]
    if k == "F":
        return "(FixStr %s)" % coq_str(t[1])
    if k == "D":
        return "(Dict [%s] [%s])" % ("; ".join(coq_pv(b) for b in t[1]), "; ".join(coq_str(a) for a in t[2]))
    if k == "S":
        return "(Spaces %s (ascii_of_nat %d))" % (coq_pv(t[1]), ord(t[2]))
    if k == "I":
        return "DecInt"
    if k == "H":
        return "HexInt"
    if k == "P":
        return "(IntSpaces %s %s %s)" % (coq_pv(t[1]), coq_z(t[2]), coq_z(t[3]))
    if k == "M":
        if t[2] < 0 or t[2] > 64:
            raise TranslateError("MultiDigit digits out of the modelled range")
        return "(MultiDigit %s %d%%nat)" % (coq_z(t[1]), t[2])
    if k in ("O", "T"):
        return "(%s [%s])" % ("OneOf" if k == "O" else "Tupl", "; ".join(coq_term(x) for x in t[1]))
    if k == "Q":
        return "(Seq %s %s)" % (coq_term(t[1]), coq_z(t[2]))
    if k == "G":
        return "(Grid %s %s)" % (coq_term(t[1]), "None" if t[2] is None else "(Some (%s, %s))" % (coq_z(t[2][0]), coq_z(t[2][1])))
    if k == "R":
        return "(Rooms %s %s)" % (coq_bool(t[1]), coq_bool(t[2]))
    if k == "V":
        return "(ValuedRooms %s %s %s)" % (coq_term(t[1]), coq_bool(t[2]), coq_bool(t[3]))
    if k == "C":
        return "(Custom %d%%nat)" % t[1]
    raise TranslateError("term " + repr(t))


def coq_allowed(al):
    if al is None:
        return "AllowAny"
    if isinstance(al, str):
        return "(AllowOne %s)" % coq_str(al)
    return "(AllowList [%s])" % "; ".join(coq_str(a) for a in al)


def coq_text(tr):
    out = ["(* GENERATED by harness/c16trans.py from cspuz/puzzle/*.py on every ./check C16 -- do not edit.",
           "   One combinator term and the two URL wrappers per puzzle module. *)",
           "From Coq Require Import ZArith List Ascii.",
           "From Cspuz Require Import Lib.PyErr Codec.Comb Codec.Puzzles.",
           "Import ListNotations.",
           "Local Open Scope Z_scope.", ""]
    for m in MODULES:
        d = tr[m]
        size = {"problem": "SizeOfProblem", "args": "SizeArgs", "rooms-clues": "SizeArgs"}[d["ser"]["size"]]
        out.append("(* cspuz/puzzle/%s.py *)" % m)
        out.append("Definition %s : comb :=\n  %s." % (d["comb_name"], coq_term(d["term"])))
        out.append("Definition %s_w : ser_wrapper :=\n  {| sw_comb := %s; sw_puzzle := %s; sw_size := %s |}."
                   % (d["ser_fn"], d["comb_name"], coq_str(d["ser"]["name"]), size))
        out.append("Definition %s_w : de_wrapper :=\n  {| dw_comb := %s; dw_allowed := %s; dw_allow_failure := %s; dw_return_size := %s |}."
                   % (d["de_fn"], d["comb_name"], coq_allowed(d["de"]["allowed"]), coq_bool(d["de"]["allow_failure"]),
                      coq_bool(d["de"]["return_size"])))
        out.append("")
    return "\n".join(out)


def write_gen(tr):
    return vlib.write_if_changed(os.path.join(vlib.GEN, "Codecs.v"), coq_text(tr))
