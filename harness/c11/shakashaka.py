"""C11 plug-in: shakashaka (solve_shakashaka(height, width, problem)); None white, -1 black, 0..4 numbered black."""
import c11lib as L

NAME = "shakashaka"
MODULE = "cspuz.puzzle.shakashaka"
FUNC = "solve_shakashaka"
TIER1 = ("Shakashaka", "solve_shakashaka_model")


def call(mod, pb):
    return mod.solve_shakashaka(pb["h"], pb["w"], [[None if v == -2 else v for v in row] for row in pb["grid"]])


def ncand(pb):
    return 5 ** sum(1 for row in pb["grid"] for v in row if v == -2)


def encode(pb):
    return [[pb["h"], pb["w"]], L.flat(pb["grid"])]


VALUES = [-2, -1, 0, 1, 2, 3, 4]


def families(tier, rng):
    th = tier == "thorough"
    for (h, w) in [(1, 1), (1, 2), (2, 1), (1, 3), (3, 1)] + ([(2, 2)] if th else []):
        for g in L.all_grids(h, w, VALUES):
            yield {"h": h, "w": w, "grid": g}
    if not th:
        for g in L.sample(rng, L.all_grids(2, 2, VALUES), 150):
            yield {"h": 2, "w": 2, "grid": g}
    for (h, w) in [(2, 3), (3, 2), (3, 3), (2, 4), (4, 2), (3, 4), (4, 4)]:
        for _ in range(150 if th else 20):
            pb = {"h": h, "w": w, "grid": L.random_grid(rng, h, w, VALUES, 0.7 if h * w <= 6 else 0.55)}
            if ncand(pb) <= (300000 if th else 70000):
                yield pb


def tier2(tier, rng):
    th = tier == "thorough"
    for (h, w) in [(1, 1), (1, 2), (2, 1)]:
        for g in L.all_grids(h, w, VALUES):
            yield {"h": h, "w": w, "grid": g}
    for g in L.sample(rng, L.all_grids(2, 2, VALUES), 40 if th else 5):
        yield {"h": 2, "w": 2, "grid": g}


def tier1_problems(tier, rng):
    """program-capture tie: every clue layout of the boards with <= 3 cells over {white, black, 0..4, 5, 7}, every layout
    over {white, black, 0..4} of the 2x2 board (a sample in the quick tier), samples of all layouts of the boards with 4 to 6
    cells (both orientations), random layouts on larger and non-square boards (1xN, Nx1, up to 8x8; mostly white, half
    white, mostly clues; numbers beyond 4), all-white and all-black boards, boards without cells, and grids whose last
    row is missing or short (IndexError in the clue loop).  The alphabet is the plug-in's: -2 (None) white, -1 black,
    n >= 0 numbered black; other negative values are not part of it."""
    th = tier == "thorough"
    wide = VALUES + [5, 7]
    for (h, w) in [(1, 1), (1, 2), (2, 1)]:
        for g in L.all_grids(h, w, wide):
            yield {"h": h, "w": w, "grid": g}
    for (h, w) in [(1, 3), (3, 1)]:
        for g in L.sample(rng, L.all_grids(h, w, wide), 729 if th else 120):
            yield {"h": h, "w": w, "grid": g}
    for g in L.sample(rng, L.all_grids(2, 2, VALUES), 2401 if th else 150):
        yield {"h": 2, "w": 2, "grid": g}
    for (h, w) in [(1, 4), (4, 1), (1, 5), (5, 1), (2, 3), (3, 2), (1, 6), (6, 1)]:
        for _ in range(80 if th else 12):
            yield {"h": h, "w": w, "grid": L.random_grid(rng, h, w, wide, rng.choice([0.2, 0.5, 0.8]))}
    for (h, w) in [(3, 3), (2, 5), (5, 2), (4, 4), (3, 6), (6, 3), (6, 5), (5, 7), (1, 7), (7, 1), (1, 9), (7, 7), (8, 8)]:
        for p in [0.4, 0.7, 0.9] * (3 if th else 1):
            yield {"h": h, "w": w, "grid": L.random_grid(rng, h, w, wide, p)}
        yield {"h": h, "w": w, "grid": [[-2] * w for _ in range(h)]}
        yield {"h": h, "w": w, "grid": [[rng.choice(wide[1:]) for _ in range(w)] for _ in range(h)]}
    for (h, w) in [(0, 0), (0, 2), (2, 0)]:
        yield {"h": h, "w": w, "grid": [[] for _ in range(h)]}
    for (h, w) in [(1, 1), (2, 2), (2, 3), (3, 2), (4, 4)]:
        g = L.random_grid(rng, h, w, VALUES, 0.5)
        yield {"h": h, "w": w, "grid": g[:-1]}                              # the last row is missing
        yield {"h": h, "w": w, "grid": g[:-1] + [g[-1][:-1]]}               # the last cell is missing
        yield {"h": h, "w": w, "grid": [[-2] * w for _ in range(h - 1)] + [[]]}  # an empty last row after all-white rows
