(* C11 Tier 1 - nanro: the constraints posted after the connectivity call (Nanro.v::nanro_constraints) evaluate, under
   any assignment, to a boolean function [nanro_sem] of the cell values and the per-room counters. *)
From Coq Require Import ZArith List Bool Arith Lia.
From Cspuz Require Import Lib.PyErr Core.Expr Core.Program Graph.GraphModel
     Puzzle.PuzzleBase Puzzle.ModelBase Puzzle.ModelLemmas Puzzle.Rules_norinori Puzzle.Norinori Puzzle.Nanro.
Import ListNotations.
Local Open Scope nat_scope.

Definition opt (c e : bool) : bool := if c then e else true.

Lemma forallb_opt {A} (f : A -> bool) (c : bool) (x : A) : forallb f (if c then [x] else []) = opt c (f x).
Proof. destruct c; simpl; [apply andb_true_r|reflexivity]. Qed.

Section Sem.
  Variables (h w : nat) (room num : list Z).
  Variables (val : nat * nat -> Z) (cn : nat -> Z).

  Definition nz (c : nat * nat) : bool := negb (val c =? 0)%Z.

  Definition blk_sem (i : nat) : bool :=
    let R := region_cells h w room i in
    (cn i =? zcount nz R)%Z && forallb (fun c => (val c =? 0)%Z || (val c =? cn i)%Z) R.

  Definition differ_sem (c c' : nat * nat) : bool :=
    (val c =? 0)%Z || (val c' =? 0)%Z || negb (val c =? val c')%Z.

  Definition cell_sem (c : nat * nat) : bool :=
    let '(y, x) := c in
    let r := at2 room w y x in
    opt (0 <? at2 num w y x)%Z (val (y, x) =? at2 num w y x)%Z &&
    (opt (Nat.ltb (S y) h && Nat.ltb (S x) w)
         ((val (y, x) =? 0)%Z || (val (y, S x) =? 0)%Z || (val (S y, x) =? 0)%Z || (val (S y, S x) =? 0)%Z) &&
     (opt (Nat.ltb (S y) h && negb (r =? at2 room w (S y) x)%Z) (differ_sem (y, x) (S y, x)) &&
      opt (Nat.ltb (S x) w && negb (r =? at2 room w y (S x))%Z) (differ_sem (y, x) (y, S x)))).

  Definition nanro_sem (k : nat) : bool :=
    forallb blk_sem (seq 0 k) && forallb cell_sem (cells h w).
End Sem.

Section Eval.
  Variable gsem : op -> list (option value) -> option bool.
  Variable en : env.
  Variables (h w : nat) (room num : list Z) (base : nat).

  Let val (c : nat * nat) : Z := ei en (h * w + cidx w c).
  Let cn (i : nat) : Z := ei en (base + i).
  Notation hold := (holds gsem en).

  Lemma eval_eq0 c : eval gsem en (nanro_eq0 h w room c) = Some (VB (val c =? 0)%Z).
  Proof. reflexivity. Qed.
  Lemma eval_ne0 c : eval gsem en (nanro_ne0 h w room c) = Some (VB (nz val c)).
  Proof. reflexivity. Qed.

  Lemma eval_or2 a b x y :
    eval gsem en a = Some (VB x) -> eval gsem en b = Some (VB y) -> eval gsem en (BNode OR [a; b]) = Some (VB (x || y)).
  Proof. intros Ha Hb. cbn [eval map]. rewrite Ha, Hb. cbn. rewrite orb_false_r. reflexivity. Qed.

  Lemma holds_of_eval e b : eval gsem en e = Some (VB b) -> hold e = b.
  Proof. unfold holds. intros ->. destruct b; reflexivity. Qed.

  Lemma eval_ct R :
    eval gsem en (nanro_ct (map (nanro_ne0 h w room) R)) = Some (VI (zcount (nz val) R)).
  Proof.
    destruct R as [|c0 R0]; [reflexivity|].
    set (R := c0 :: R0). assert (Hne : R <> []) by discriminate. clearbody R.
    unfold nanro_ct. destruct (map (nanro_ne0 h w room) R) eqn:E; [destruct R; [contradiction|discriminate]|].
    rewrite <- E. clear E. cbn [eval]. rewrite !map_map.
    rewrite (map_ext _ (fun c => Some (VI (if nz val c then 1 else 0)%Z))).
    2:{ intros c. cbn [eval map]. rewrite eval_ne0. cbn. destruct (nz val c); reflexivity. }
    rewrite <- (map_map (fun c => (if nz val c then 1 else 0)%Z) (fun z => Some (VI z))).
    rewrite eval_iop_add_ints by (destruct R; [contradiction|discriminate]).
    f_equal. f_equal. clear. unfold zcount, count, zsum.
    induction R as [|c r IH]; [reflexivity|]. cbn [map fold_right filter].
    destruct (nz val c); cbn [length]; rewrite IH; lia.
  Qed.

  Lemma hold_differ c c' : hold (nanro_differ h w room c c') = differ_sem val c c'.
  Proof.
    apply holds_of_eval. unfold nanro_differ, differ_sem.
    apply eval_or2; [apply eval_or2; apply eval_eq0|reflexivity].
  Qed.

  Lemma hold_block i : forallb hold (nanro_block h w room base i) = blk_sem h w room val cn i.
  Proof.
    unfold nanro_block, blk_sem. cbn [forallb]. f_equal.
    - apply holds_of_eval. cbn [eval map]. rewrite eval_ct. reflexivity.
    - rewrite forallb_map. apply forallb_ext_in. intros c _. apply holds_of_eval.
      apply eval_or2; [apply eval_eq0|reflexivity].
  Qed.

  Lemma hold_cell c : forallb hold (nanro_cell h w room num c) = cell_sem h w room num val c.
  Proof.
    destruct c as [y x]. unfold nanro_cell, cell_sem. rewrite !forallb_app, !forallb_opt.
    f_equal; [|f_equal; [|f_equal]].
    - f_equal. apply holds_of_eval. reflexivity.
    - f_equal. apply holds_of_eval.
      apply eval_or2; [apply eval_or2; [apply eval_or2|]|]; apply eval_eq0.
    - f_equal. apply hold_differ.
    - f_equal. apply hold_differ.
  Qed.

  Theorem nanro_constraints_sem k :
    forallb hold (nanro_constraints h w room num k base) = nanro_sem h w room num val cn k.
  Proof.
    unfold nanro_constraints, nanro_sem. rewrite forallb_app, !forallb_flat_map. f_equal.
    - apply forallb_ext_in. intros i _. apply hold_block.
    - apply forallb_ext_in. intros c _. apply hold_cell.
  Qed.
End Eval.

(* the semantic function only looks at the cells of the board and the counters below k *)
Lemma nanro_sem_ext h w room num k val val' cn cn' :
  (forall y x, y < h -> x < w -> val (y, x) = val' (y, x)) -> (forall i, i < k -> cn i = cn' i) ->
  nanro_sem h w room num val cn k = nanro_sem h w room num val' cn' k.
Proof.
  intros Ev Ec. unfold nanro_sem. f_equal.
  - apply forallb_ext_in. intros i Hi. apply in_seq in Hi. unfold blk_sem. rewrite (Ec i) by lia.
    assert (HR : forall c, In c (region_cells h w room i) -> val c = val' c).
    { intros [y x] Hc. unfold region_cells in Hc. apply filter_In in Hc. destruct Hc as [Hc _].
      apply cells_in in Hc. apply Ev; tauto. }
    f_equal.
    + f_equal. unfold zcount. f_equal. apply count_ext_in. intros c Hc. unfold nz. rewrite (HR c Hc). reflexivity.
    + apply forallb_ext_in. intros c Hc. rewrite (HR c Hc). reflexivity.
  - apply forallb_ext_in. intros [y x] Hc. apply cells_in in Hc. destruct Hc as [Hy Hx].
    unfold cell_sem, differ_sem. rewrite (Ev y x Hy Hx).
    apply (f_equal2 andb); [reflexivity|]. apply (f_equal2 andb); [|apply (f_equal2 andb)].
    + destruct (Nat.ltb_spec (S y) h) as [L1|L1], (Nat.ltb_spec (S x) w) as [L2|L2]; cbn [andb opt]; try reflexivity.
      rewrite (Ev y (S x)), (Ev (S y) x), (Ev (S y) (S x)) by assumption. reflexivity.
    + destruct (Nat.ltb_spec (S y) h) as [L1|L1]; cbn [andb opt]; [|reflexivity].
      rewrite (Ev (S y) x) by assumption. reflexivity.
    + destruct (Nat.ltb_spec (S x) w) as [L2|L2]; cbn [andb opt]; [|reflexivity].
      rewrite (Ev y (S x)) by assumption. reflexivity.
Qed.
