(* C12 runner: I/O only.  One request line -> one reply line. *)
open Model
open Zutil

let zi s = z_of_int (int_of_string s)

(* value:  A1 B|I n [ e.. ]  |  A2 B|I h w [ e.. ]  |  expr *)
let parse_kind = function "B" -> KB | "I" -> KI | _ -> failwith "kind"
let parse_val toks = match toks with
  | "A1" :: k :: n :: r -> let (d, r') = Exprio.parse_expr_list r in (VA (parse_kind k, S1 (zi n), d), r')
  | "A2" :: k :: h :: w :: r -> let (d, r') = Exprio.parse_expr_list r in (VA (parse_kind k, S2 (zi h, zi w), d), r')
  | _ -> let (e, r) = Exprio.parse_expr toks in (VE e, r)

let rec parse_vals toks = match toks with
  | [] -> []
  | _ -> let (v, r) = parse_val toks in v :: parse_vals r

(* nest:  L( nest* )L | value *)
let rec parse_nest toks = match toks with
  | "L(" :: r -> let (l, r') = parse_nests r in (NL l, r')
  | _ -> let (v, r) = parse_val toks in (NV v, r)
and parse_nests toks = match toks with
  | ")L" :: r -> ([], r)
  | [] -> failwith "nest"
  | _ -> let (n, r) = parse_nest toks in let (ns, r') = parse_nests r in (n :: ns, r')
let rec parse_nest_args toks = match toks with
  | [] -> []
  | _ -> let (n, r) = parse_nest toks in n :: parse_nest_args r

let kind_s = function KB -> "B" | KI -> "I"
let show_val = function
  | VE e -> Exprio.show_expr e
  | VA (k, S1 n, d) -> Printf.sprintf "A1 %s %d %s" (kind_s k) (int_of_z n) (Exprio.show_expr_list d)
  | VA (k, S2 (h, w), d) -> Printf.sprintf "A2 %s %d %d %s" (kind_s k) (int_of_z h) (int_of_z w) (Exprio.show_expr_list d)

let show_err e = "E " ^ string_of_int (int_of_nat (pyerr_code e))
let show_res = function Ok v -> show_val v | Err e -> show_err e
let show_eres = function Ok e -> Exprio.show_expr e | Err e -> show_err e

let pyops = [ ("and", OAnd); ("or", OOr); ("xor", OXor); ("add", OAdd); ("sub", OSub); ("eq", OEq);
              ("ne", ONe); ("lt", OLt); ("le", OLe); ("gt", OGt); ("ge", OGe) ]
let mnames = [ ("cond", M_cond); ("then", M_then); ("__invert__", M_invert); ("__and__", M_and);
  ("__rand__", M_rand); ("__or__", M_or); ("__ror__", M_ror); ("__eq__", M_eq); ("__ne__", M_ne);
  ("__xor__", M_xor); ("__rxor__", M_rxor); ("fold_or", M_fold_or); ("fold_and", M_fold_and);
  ("count_true", M_count_true); ("__neg__", M_neg); ("__add__", M_add); ("__radd__", M_radd);
  ("__sub__", M_sub); ("__rsub__", M_rsub); ("__ge__", M_ge); ("__gt__", M_gt); ("__le__", M_le);
  ("__lt__", M_lt); ("alldifferent", M_alldifferent) ]

let parse_shape toks = match toks with
  | "S1" :: n :: r -> (S1 (zi n), r)
  | "S2" :: h :: w :: r -> (S2 (zi h, zi w), r)
  | _ -> failwith "shape"

let parse_fnargs toks = match toks with
  | ["2"; y; x] -> FNTwoInts (zi y, zi x)
  | ["T"; y; x] -> FNTuple (zi y, zi x)
  | ["1"; y] -> FNOneInt (zi y)
  | ["X"; x] -> FNTupleAndInt (zi x)
  | _ -> failwith "fnargs"

(* [ 0 1 ... ] *)
let parse_ints toks = match toks with
  | "[" :: r ->
      let rec go acc r = match r with
        | "]" :: r' -> (List.rev acc, r')
        | t :: r' -> go (int_of_string t :: acc) r'
        | [] -> failwith "ints" in
      go [] r
  | _ -> failwith "ints"

let handle toks = match toks with
  | "BIN" :: o :: same :: r ->
      (match parse_vals r with
       | [a; b] -> show_res (py_binop (List.assoc o pyops) (same = "1") a b)
       | _ -> failwith "BIN")
  | "UN" :: u :: r ->
      let (a, _) = parse_val r in
      show_res (py_unop (if u = "INV" then UInvert else UNeg) a)
  | "CALL" :: m :: r ->
      (match parse_vals r with
       | self :: args -> show_res (call_method self (List.assoc m mnames) args)
       | _ -> failwith "CALL")
  | "COND" :: r ->
      (match parse_vals r with [c; t; f] -> show_res (fn_cond c t f) | _ -> failwith "COND")
  | "THEN" :: r ->
      (match parse_vals r with [x; y] -> show_res (fn_then x y) | _ -> failwith "THEN")
  | "ELEM" :: o :: r ->
      let (sh, r) = parse_shape r in
      show_res (elementwise (Exprio.op_of_name o) sh (parse_vals r))
  | "H" :: f :: r ->
      let args = parse_nest_args r in
      show_eres (match f with
        | "CT" -> h_count_true args | "FO" -> h_fold_or args | "FA" -> h_fold_and args
        | "AD" -> h_alldifferent args | _ -> failwith "H")
  | "CONV" :: h :: w :: r ->
      let (d, r) = Exprio.parse_expr_list r in
      (match r with
       | [kh; kw; o] ->
           show_res (conv2d (zi h) (zi w) d (zi kh) (zi kw)
                       (match o with "and" -> ConvAnd | "or" -> ConvOr | _ -> ConvOther))
       | _ -> failwith "CONV")
  | "FNI" :: h :: w :: r ->
      (match four_neighbor_indices (zi h) (zi w) (parse_fnargs r) with
       | Err e -> show_err e
       | Ok l -> "P" ^ String.concat "" (List.map (fun (y, x) -> Printf.sprintf " %d %d" (int_of_z y) (int_of_z x)) l))
  | "FN" :: k :: h :: w :: r ->
      let (d, r) = Exprio.parse_expr_list r in
      show_res (four_neighbors (parse_kind k) (zi h) (zi w) d (parse_fnargs r))
  | "EVAL" :: r ->
      let (bs, r) = parse_ints r in
      let (is, r) = parse_ints r in
      let (e, _) = Exprio.parse_expr r in
      let ba = Array.of_list bs and ia = Array.of_list is in
      let en = { eb = (fun n -> let i = int_of_nat n in i < Array.length ba && ba.(i) <> 0);
                 ei = (fun n -> let i = int_of_nat n in if i < Array.length ia then z_of_int ia.(i) else Z0) } in
      (match eval0 en e with
       | None -> "NONE"
       | Some (VB b) -> if b then "VB 1" else "VB 0"
       | Some (VI z) -> "VI " ^ string_of_int (int_of_z z))
  | _ -> "EXN bad request"

let () = main_loop handle
