(* C11 Tier 1, native-operator route - cspuz/puzzle/castle_wall.py::solve_castle_wall with
   cspuz.config.use_graph_primitive on (the default of the csugar / enigma_csp / cspuz_core backends):
   graph.active_edges_single_cycle(solver, grid_frame) declares only the height * width `passed` flags and posts, per
   cell, the degree constraint and ONE native node Op.GRAPH_ACTIVE_VERTICES_CONNECTED over the line graph of the frame
   (model of property C06, Graph/Cycle.v::active_edges_single_cycle ... None true = CyclePrimCompose2.frame_cycle_prim;
   the native node means C06's gsem_c06).  Everything else is the body of CastleWall.solve_castle_wall_model with the
   definitions of CastleWall.v: is_inside is declared from the id the Solver has reached (next_id), which is now
   frame_n + height * width instead of frame_n + 3 * height * width.  Same input domain.  Error behaviour: as on the
   plain route, except for the boards (0, -k) and (-k, 0), k >= 0 (both dimensions strictly negative stay outside the
   scope): on the plain route the rank array int_array(.., 0, -1) of the helper raises ValueError; on this route nothing
   raises, Array2D takes the product of its (negative) dimensions as its size, so the frame has k variables (the
   answer keys), `passed` is empty, is_inside has k + 1 variables, all loops are empty and the program consists of the
   native node on the empty graph alone (cw_degenerate_prim k; the capture tie contains (0, 0), (-1, 0), (0, -3)).

   castle_wall_program_prim / castle_wall_exact_prim: the statements of CastleWallProofs.castle_wall_program /
   castle_wall_exact for this program (same hypothesis cw_wf, same answer keys - the frame), from
   CyclePrimCompose2.cycle_frame_compose_aux_prim and the local lemmas of CastleWallProofs.v (which are stated for any
   base id of is_inside); the later constraints contain no native node, so their meaning under gsem_c06 is their
   meaning under no_graph (cw_extra_gfree). *)
From Coq Require Import ZArith List Bool Arith Lia.
From Cspuz Require Import Lib.PyErr Core.Expr Core.Program Graph.GraphModel Graph.Cycle Graph.CycleLemmas
     Puzzle.PuzzleBase Puzzle.SatAbs Puzzle.ModelBase Puzzle.ModelLemmas Puzzle.AkariLemmas
     Puzzle.CycleFrameBase Puzzle.CycleCompose Puzzle.CyclePrimCompose2
     Puzzle.Rules_castle_wall Puzzle.CastleWall Puzzle.CastleWallProofs.
Import ListNotations.
Local Open Scope nat_scope.

(* the program of the boards (0, -k) and (-k, 0) *)
Definition cw_degenerate_prim (k : nat) : state :=
  {| vars := repeat DBool (k + S k); keys := repeat true k ++ repeat false (S k);
     cons := [BNode G_AVC [PyInt 0; PyInt 0]] |}.

Definition solve_castle_wall_model_prim (pb : problem) : res state :=
  let h := dim pb 0 in let w := dim pb 1 in
  let kind := sec pb 1 in let num := sec pb 2 in let side := sec pb 3 in
  if ((getz (sec pb 0) 0 =? 0) && (getz (sec pb 0) 1 <=? 0))%Z then Ok (cw_degenerate_prim (Z.to_nat (- getz (sec pb 0) 1)))
  else if ((getz (sec pb 0) 1 =? 0) && (getz (sec pb 0) 0 <=? 0))%Z then Ok (cw_degenerate_prim (Z.to_nat (- getz (sec pb 0) 0)))
  else if ((getz (sec pb 0) 0 <=? 0) || (getz (sec pb 0) 1 <=? 0))%Z then Err ValueError
  else
  match frame_cycle_prim (h - 1) (w - 1) with
  | Ok (st1, _) =>
      if Nat.ltb (length kind) (h * w) || Nat.ltb (length num) (h * w) || Nat.ltb (length side) (h * w)
      then Err IndexError
      else
        let st2 := ensure st1 (cw_arrows h w kind num) in
        let base := next_id st2 in
        let '(st3, _) := bool_array st2 ((h - 1) * (w - 1)) in
        Ok (ensure (ensure st3 (cw_inout base (h - 1) (w - 1))) (cw_sides base h w side))
  | Err e => Err e
  end.

(* ------------------------------------------------------------------------------------------------------ *)
(* the constraints posted after the call contain no native graph node                                      *)

Lemma cw_arrows_gfree h w kind num : forallb gfree (cw_arrows h w kind num) = true.
Proof.
  unfold cw_arrows. rewrite forallb_flat_map. apply forallb_forall. intros [y x] _.
  unfold cw_arrow. cbv zeta.
  destruct (_ =? 0)%Z; [reflexivity|].
  destruct (_ =? 1)%Z; [cbn [forallb gfree]; rewrite gfree_ct_vars; reflexivity|].
  destruct (_ =? 2)%Z; [cbn [forallb gfree]; rewrite gfree_ct_vars; reflexivity|].
  destruct (_ =? 3)%Z; [cbn [forallb gfree]; rewrite gfree_ct_vars; reflexivity|].
  destruct (_ =? 4)%Z; [cbn [forallb gfree]; rewrite gfree_ct_vars; reflexivity|reflexivity].
Qed.

Lemma cw_inout_gfree base fh fw : forallb gfree (cw_inout base fh fw) = true.
Proof.
  unfold cw_inout. rewrite forallb_map. apply forallb_forall. intros [[|y] x] _; reflexivity.
Qed.

Lemma cw_sides_gfree base h w side : forallb gfree (cw_sides base h w side) = true.
Proof.
  unfold cw_sides. rewrite forallb_flat_map. apply forallb_forall. intros [y x] _.
  unfold cw_side1. cbv zeta.
  destruct (_ || _)%bool; destruct (_ =? 1)%Z; try reflexivity. destruct (_ =? 2)%Z; reflexivity.
Qed.

Lemma cw_extra_gfree base h w kind num side :
  forallb gfree (cw_arrows h w kind num ++ cw_inout base (h - 1) (w - 1) ++ cw_sides base h w side) = true.
Proof. rewrite !forallb_app, cw_arrows_gfree, cw_inout_gfree, cw_sides_gfree. reflexivity. Qed.

(* ------------------------------------------------------------------------------------------------------ *)

Local Ltac cwp_open h w kind num side :=
  unfold solve_castle_wall_model_prim;
  change (sec [[Z.of_nat h; Z.of_nat w]; kind; num; side] 1) with kind;
  change (sec [[Z.of_nat h; Z.of_nat w]; kind; num; side] 2) with num;
  change (sec [[Z.of_nat h; Z.of_nat w]; kind; num; side] 3) with side;
  change (sec [[Z.of_nat h; Z.of_nat w]; kind; num; side] 0) with [Z.of_nat h; Z.of_nat w];
  change (getz [Z.of_nat h; Z.of_nat w] 0) with (Z.of_nat h);
  change (getz [Z.of_nat h; Z.of_nat w] 1) with (Z.of_nat w);
  destruct (cw_dims h w [kind; num; side]) as [-> ->]; cbv zeta.

Theorem castle_wall_program_prim fh fw kind num side st ans :
  solve_castle_wall_model_prim [[Z.of_nat (S fh); Z.of_nat (S fw)]; kind; num; side] = Ok st ->
  ((exists en, model_of gsem_c06 en st /\ reads st en (seq 0 (frame_n fh fw)) = ans)
   <-> Nat.eqb (length ans) (frame_n fh fw) && forallb is01 ans &&
       single_loop_b (lattice (S fh) (S fw)) (fun k => isb (getz ans k)) && cw_local fh fw kind num side ans = true).
Proof.
  cwp_open (S fh) (S fw) kind num side.
  replace (Z.of_nat (S fh) =? 0)%Z with false by (symmetry; apply Z.eqb_neq; lia).
  replace (Z.of_nat (S fw) =? 0)%Z with false by (symmetry; apply Z.eqb_neq; lia). cbn [andb].
  replace ((Z.of_nat (S fh) <=? 0) || (Z.of_nat (S fw) <=? 0))%Z with false
    by (symmetry; apply orb_false_iff; split; apply Z.leb_gt; lia).
  replace (S fh - 1) with fh by lia. replace (S fw - 1) with fw by lia.
  destruct (frame_cycle_prim fh fw) as [[st1 res]|e] eqn:Hcall; [|intros H; discriminate H].
  destruct (Nat.ltb (length kind) (S fh * S fw) || Nat.ltb (length num) (S fh * S fw) ||
            Nat.ltb (length side) (S fh * S fw)); [intros H; discriminate H|].
  unfold bool_array. rewrite CycleLemmas.bool_vars_spec.
  intros Hst. inversion Hst; subst st. clear Hst.
  change (next_id (ensure st1 (cw_arrows (S fh) (S fw) kind num))) with (next_id st1).
  set (B := next_id st1).
  set (extra := cw_arrows (S fh) (S fw) kind num ++ cw_inout B fh fw ++ cw_sides B (S fh) (S fw) side).
  assert (Hgf : forallb gfree extra = true).
  { pose proof (cw_extra_gfree B (S fh) (S fw) kind num side) as H.
    replace (S fh - 1) with fh in H by lia. replace (S fw - 1) with fw in H by lia. exact H. }
  match goal with |- (exists en, model_of _ en ?s /\ _) <-> _ => set (stF := s) end.
  assert (Hvars : vars stF = vars st1 ++ repeat DBool (fh * fw)) by reflexivity.
  assert (Hcons : Program.cons stF = Program.cons st1 ++ extra).
  { unfold stF, extra, ensure. cbn [Program.cons]. rewrite <- !app_assoc. reflexivity. }
  apply (cycle_frame_compose_aux_prim fh fw (fh * fw) extra (cw_local fh fw kind num side) (cw_aux fh fw)
           st1 res stF ans Hcall Hvars Hcons).
  - (* every model of the later constraints satisfies the local rules *)
    intros en PASS Hex. rewrite (forallb_holds_gfree gsem_c06 en extra Hgf) in Hex.
    unfold extra in Hex. rewrite !forallb_app, !andb_true_iff in Hex.
    destruct Hex as [Ha [Hi Hs]]. unfold cw_local. apply andb_true_iff. split.
    + rewrite <- (cw_arrows_core fh fw kind num en PASS). exact Ha.
    + rewrite <- (cw_sides_core fh fw side en B); [exact Hs|].
      apply (cw_inout_core fh fw en B). exact Hi.
  - (* the local rules and the parities in the flags make the later constraints true *)
    intros en PASS Hl Haux. rewrite (forallb_holds_gfree gsem_c06 en extra Hgf).
    unfold cw_local in Hl. apply andb_true_iff in Hl. destruct Hl as [Hl1 Hl2].
    assert (Hins : forall y x, y < fh -> x < fw -> eb en (cw_iid B fw y x) = cw_ins fh fw (eb en) y x).
    { intros y x Hy Hx. unfold cw_iid. replace (B + y * fw + x) with (B + (y * fw + x)) by lia.
      rewrite Haux by nia. rewrite cw_aux_at by exact Hx.
      apply cw_ins_ext; [lia|exact Hx|]. intros k Hk. rewrite getz_map_seq by exact Hk. apply b2z_isb. }
    unfold extra. rewrite !forallb_app, !andb_true_iff. split; [|split].
    + rewrite (cw_arrows_core fh fw kind num en PASS). exact Hl1.
    + apply (cw_inout_core fh fw en B). exact Hins.
    + rewrite (cw_sides_core fh fw side en B Hins). exact Hl2.
Qed.

(* the model rejects boards with exactly one of height, width equal to 0; the 0 x 0 board gives cw_degenerate_prim 0 *)
Lemma castle_wall_model_prim_dims h w kind num side st :
  solve_castle_wall_model_prim [[Z.of_nat h; Z.of_nat w]; kind; num; side] = Ok st ->
  (1 <= h /\ 1 <= w) \/ (h = 0 /\ w = 0 /\ st = cw_degenerate_prim 0).
Proof.
  cwp_open h w kind num side.
  destruct h as [|fh]; destruct w as [|fw].
  - intros H. inversion H. right. auto.
  - replace (Z.of_nat (S fw) <=? 0)%Z with false by (symmetry; apply Z.leb_gt; lia).
    replace (Z.of_nat (S fw) =? 0)%Z with false by (symmetry; apply Z.eqb_neq; lia).
    intros H; discriminate H.
  - replace (Z.of_nat (S fh) <=? 0)%Z with false by (symmetry; apply Z.leb_gt; lia).
    replace (Z.of_nat (S fh) =? 0)%Z with false by (symmetry; apply Z.eqb_neq; lia).
    intros H; discriminate H.
  - intros _. left. lia.
Qed.

Theorem castle_wall_exact_prim h w kind num side st ans :
  cw_wf h w kind side = true ->
  solve_castle_wall_model_prim [[Z.of_nat h; Z.of_nat w]; kind; num; side] = Ok st ->
  ((exists en, model_of gsem_c06 en st /\ reads st en (seq 0 (h * (w - 1) + (h - 1) * w)) = ans)
   <-> rules_castle_wall [[Z.of_nat h; Z.of_nat w]; kind; num; side] ans = true).
Proof.
  intros Hwf Hst. destruct (castle_wall_model_prim_dims h w kind num side st Hst) as [[Hh Hw]|[-> [-> ->]]].
  2:{ (* the 0 x 0 board: the only reading is the empty one, and it obeys the rules *)
      split.
      - intros [en [_ Hr]]. simpl in Hr. subst ans. reflexivity.
      - intros Hr. destruct ans as [|a r]; [|discriminate Hr].
        exists {| eb := fun _ => false; ei := fun _ => 0%Z |}. split; [split; reflexivity|reflexivity]. }
  destruct h as [|fh]; [lia|]. destruct w as [|fw]; [lia|].
  replace (S fh * (S fw - 1) + (S fh - 1) * S fw) with (frame_n fh fw)
    by (unfold frame_n; replace (S fw - 1) with fw by lia; replace (S fh - 1) with fh by lia; reflexivity).
  rewrite (cw_rules_local fh fw kind num side ans Hwf).
  apply castle_wall_program_prim. exact Hst.
Qed.

(* the model accepts every problem with at least one row and one column and enough entries in the three lists
   (the premises of castle_wall_exact_prim are satisfiable, see also CastleWallProofs.castle_wall_wf_ok) *)
Lemma castle_wall_model_prim_total h w kind num side :
  1 <= h -> 1 <= w -> h * w <= length kind -> h * w <= length num -> h * w <= length side ->
  exists st, solve_castle_wall_model_prim [[Z.of_nat h; Z.of_nat w]; kind; num; side] = Ok st.
Proof.
  intros Hh Hw Lk Ln Ls. cwp_open h w kind num side.
  replace (Z.of_nat h =? 0)%Z with false by (symmetry; apply Z.eqb_neq; lia).
  replace (Z.of_nat w =? 0)%Z with false by (symmetry; apply Z.eqb_neq; lia). cbn [andb].
  replace ((Z.of_nat h <=? 0) || (Z.of_nat w <=? 0))%Z with false
    by (symmetry; apply orb_false_iff; split; apply Z.leb_gt; lia).
  destruct (frame_cycle_prim_ok (h - 1) (w - 1)) as [st1 [res Hc]]. rewrite Hc.
  replace (Nat.ltb (length kind) (h * w)) with false by (symmetry; apply Nat.ltb_ge; exact Lk).
  replace (Nat.ltb (length num) (h * w)) with false by (symmetry; apply Nat.ltb_ge; exact Ln).
  replace (Nat.ltb (length side) (h * w)) with false by (symmetry; apply Nat.ltb_ge; exact Ls).
  cbn [orb]. destruct (bool_array _ _) as [st3 l]. eexists. reflexivity.
Qed.

Example castle_wall_model_prim_ok :
  exists st, solve_castle_wall_model_prim [[3; 3]; [0; 0; 0; 0; 5; 0; 0; 0; 0]; [0; 0; 0; 0; 0; 0; 0; 0; 0];
                                           [0; 0; 0; 0; 1; 0; 0; 0; 0]]%Z = Ok st.
Proof. apply (castle_wall_model_prim_total 3 3); simpl; lia. Qed.
