(* C08, planar-separation part, direction A: on an independent pattern of an
   h x w grid (h, w >= 2) the diagonal forest condition implies that the
   inactive cells are connected.

   Proof: the rank certificate of NotAdjForest/NotAdjDiag exists; the active
   cell of largest rank has at most one active diagonal neighbour (none when
   it is on the border), so the inactive cells around it form a connected arc
   through which every path of inactive cells can be re-routed; remove it and
   proceed by induction on the number of active cells. *)
From Coq Require Import ZArith List Bool Arith Lia.
From Cspuz Require Import Graph.GraphModel Graph.ReachProofs Graph.Avc Graph.AvcProofs
  Graph.NotAdj Graph.NotAdjForest Graph.NotAdjDiag Graph.NotAdjPlanarGrid.
Import ListNotations.
Local Open Scope nat_scope.

(* ------------------------------------------------------------------------ *)
(* generic facts                                                             *)

(* paths through one additional vertex v can be re-routed when the allowed
   neighbours of v are mutually reachable without it *)
Lemma reroute g eok vok vok' v :
  vok v = false -> (forall x, vok' x = vok x || Nat.eqb x v) ->
  (forall p q, In p (nbrs g eok v) -> In q (nbrs g eok v) -> vok p = true -> vok q = true ->
               reach g vok eok p q) ->
  forall u x, reach g vok' eok u x -> vok u = true ->
    (x <> v -> reach g vok eok u x) /\
    (x = v -> forall p, In p (nbrs g eok v) -> vok p = true -> reach g vok eok u p).
Proof.
  intros Hv Hvok' Hring u x Hr Hu.
  induction Hr as [u Hu'|u x z Hr IH Hn Hz].
  - split; [intros _; apply reach_refl; exact Hu|]. intros ->. congruence.
  - specialize (IH Hu). destruct IH as [IH1 IH2]. split.
    + intros Hzv. assert (Hz' : vok z = true).
      { rewrite Hvok' in Hz. apply orb_true_iff in Hz. destruct Hz as [Hz|Hz]; [exact Hz|].
        apply Nat.eqb_eq in Hz. contradiction. }
      destruct (Nat.eq_dec x v) as [->|Hxv].
      * apply (IH2 eq_refl z Hn Hz').
      * eapply reach_step; [apply IH1; exact Hxv|exact Hn|exact Hz'].
    + intros -> p Hp Hvp. destruct (Nat.eq_dec x v) as [->|Hxv].
      * apply (IH2 eq_refl p Hp Hvp).
      * specialize (IH1 Hxv). apply reach_trans with x; [exact IH1|].
        apply Hring; [apply nbrs_sym; exact Hn|exact Hp| |exact Hvp].
        apply (reach_vok_end _ _ _ _ _ IH1).
Qed.

Lemma filter_length_mono {A} (f g : A -> bool) l :
  (forall x, In x l -> f x = true -> g x = true) -> length (filter f l) <= length (filter g l).
Proof.
  induction l as [|a l IH]; intros H; simpl; [lia|].
  assert (IH' : length (filter f l) <= length (filter g l)) by (apply IH; intros x Hx; apply H; right; exact Hx).
  destruct (f a) eqn:Ef.
  - rewrite (H a (or_introl eq_refl) Ef). simpl. lia.
  - destruct (g a); simpl; lia.
Qed.

Lemma filter_length_strict {A} (f g : A -> bool) l v :
  (forall x, In x l -> f x = true -> g x = true) -> In v l -> f v = false -> g v = true ->
  length (filter f l) < length (filter g l).
Proof.
  induction l as [|a l IH]; intros H Hin Hf Hg; [destruct Hin|].
  assert (Hmono : length (filter f l) <= length (filter g l))
    by (apply filter_length_mono; intros x Hx; apply H; right; exact Hx).
  simpl. destruct Hin as [->|Hin].
  - rewrite Hf, Hg. simpl. lia.
  - assert (IH' : length (filter f l) < length (filter g l))
      by (apply IH; [intros x Hx; apply H; right; exact Hx|exact Hin|exact Hf|exact Hg]).
    destruct (f a) eqn:Ef.
    + rewrite (H a (or_introl eq_refl) Ef). simpl. lia.
    + destruct (g a); simpl; lia.
Qed.

Lemma filter_le1_distinct {A} (f : A -> bool) l a b :
  NoDup l -> length (filter f l) <= 1 -> In a l -> In b l -> a <> b -> f a = true -> f b = true -> False.
Proof.
  intros Hnd Hlen Ha Hb Hab Hfa Hfb.
  assert (Hnd' : NoDup (filter f l)) by (apply NoDup_filter; exact Hnd).
  assert (Ha' : In a (filter f l)) by (apply filter_In; tauto).
  assert (Hb' : In b (filter f l)) by (apply filter_In; tauto).
  destruct (filter f l) as [|c [|d r]]; simpl in *; try lia.
  destruct Ha' as [<-|[]]. destruct Hb' as [<-|[]]. congruence.
Qed.

(* a vertex of largest rank among those satisfying P *)
Lemma argmax (f : nat -> Z) (P : nat -> bool) : forall n,
  (exists v, v < n /\ P v = true) ->
  exists v, v < n /\ P v = true /\ forall u, u < n -> P u = true -> (f u <= f v)%Z.
Proof.
  induction n as [|n IH]; intros [v [Hv HP]]; [lia|].
  destruct (existsb P (seq 0 n)) eqn:Ex.
  - apply existsb_exists in Ex. destruct Ex as [v0 [Hv0 HP0]]. apply in_seq in Hv0.
    assert (Hv0' : v0 < n) by lia.
    destruct (IH (ex_intro _ v0 (conj Hv0' HP0))) as [m [Hm [HPm Hmax]]].
    destruct (P n) eqn:En.
    + destruct (Z_le_gt_dec (f n) (f m)) as [Hle|Hgt].
      * exists m. split; [lia|]. split; [exact HPm|]. intros u Hu HPu.
        destruct (Nat.eq_dec u n) as [->|Hne]; [exact Hle|apply Hmax; [lia|exact HPu]].
      * exists n. split; [lia|]. split; [exact En|]. intros u Hu HPu.
        destruct (Nat.eq_dec u n) as [->|Hne]; [lia|]. specialize (Hmax u ltac:(lia) HPu). lia.
    + exists m. split; [lia|]. split; [exact HPm|]. intros u Hu HPu.
      destruct (Nat.eq_dec u n) as [->|Hne]; [congruence|apply Hmax; [lia|exact HPu]].
  - assert (Hnone : forall u, u < n -> P u = false).
    { intros u Hu. destruct (P u) eqn:E; [|reflexivity].
      assert (existsb P (seq 0 n) = true) by (apply existsb_exists; exists u; split; [apply in_seq; lia|exact E]).
      congruence. }
    assert (v = n).
    { destruct (Nat.eq_dec v n); [assumption|]. rewrite (Hnone v) in HP by lia. discriminate. }
    subst v. exists n. split; [lia|]. split; [exact HP|]. intros u Hu HPu.
    destruct (Nat.eq_dec u n) as [->|Hne]; [lia|]. rewrite (Hnone u) in HPu by lia. discriminate.
Qed.

(* ------------------------------------------------------------------------ *)

Ltac rch1 :=
  match goal with
  | H : reach _ _ _ ?a ?b |- reach _ _ _ ?a ?b => exact H
  | H : reach _ _ _ ?b ?a |- reach _ _ _ ?a ?b => apply reach_sym; exact H
  end.
Ltac rch2 :=
  first [ rch1 |
  match goal with
  | H : reach _ _ _ ?a ?m |- reach ?g ?vk ?ek ?a ?b => apply (reach_trans g vk ek a m b H); rch1
  | H : reach _ _ _ ?m ?a |- reach ?g ?vk ?ek ?a ?b =>
      apply (reach_trans g vk ek a m b (reach_sym g vk ek m a H)); rch1
  end ].
Ltac rch3 :=
  first [ rch2 |
  match goal with
  | H : reach _ _ _ ?a ?m |- reach ?g ?vk ?ek ?a ?b => apply (reach_trans g vk ek a m b H); rch2
  | H : reach _ _ _ ?m ?a |- reach ?g ?vk ?ek ?a ?b =>
      apply (reach_trans g vk ek a m b (reach_sym g vk ek m a H)); rch2
  end ].

Section DirA.
  Variables h w : nat.
  Hypothesis Hh : 2 <= h.
  Hypothesis Hw : 2 <= w.
  Let n := h * w.
  Let G := grid_graph h w.
  Let nb := diag_nbrs h w.
  Let pin := on_border h w.
  Notation c := (cell w).

  (* ---- the whole grid is connected *)
  Lemma full_grid_reach vok : (forall v, v < n -> vok v = true) ->
    forall y x, y < h -> x < w -> reach G vok all_edges_ok (c 0 0) (c y x).
  Proof.
    intros Hall. assert (Hcol : forall y, y < h -> reach G vok all_edges_ok (c 0 0) (c y 0)).
    { induction y as [|y IH]; intros Hy.
      - apply reach_refl. apply Hall. apply cell_lt; lia.
      - eapply reach_step; [apply IH; lia| |apply Hall; apply cell_lt; lia].
        apply (nbr_down h w y 0); lia. }
    intros y x Hy. induction x as [|x IH]; intros Hx; [apply Hcol; exact Hy|].
    eapply reach_step; [apply IH; lia| |apply Hall; apply cell_lt; lia].
    apply (nbr_right h w y x); lia.
  Qed.

  Lemma full_grid_connected vok : (forall v, v < n -> vok v = true) -> connected G vok.
  Proof.
    intros Hall u v Hu Hv _ _. change (nv G) with (h * w) in Hu, Hv.
    destruct (cell_coords h w u Hu) as [Hyu [Hxu Eu]]. destruct (cell_coords h w v Hv) as [Hyv [Hxv Ev]].
    rewrite Eu, Ev. apply reach_trans with (c 0 0).
    - apply reach_sym. apply full_grid_reach; assumption.
    - apply full_grid_reach; assumption.
  Qed.

  (* ---- the 2 x 2 blocks: two cells sharing a corner with a third one *)
  Section Block.
    Variable vok : nat -> bool.
    Variables y0 x0 : nat.
    Hypothesis Hy0 : S y0 < h.
    Hypothesis Hx0 : S x0 < w.
    Notation R := (reach G vok all_edges_ok).

    Lemma step_h y x : y < h -> S x < w -> vok (c y x) = true -> vok (c y (S x)) = true ->
      R (c y x) (c y (S x)).
    Proof.
      intros Hy Hx H1 H2. eapply reach_step; [apply reach_refl; exact H1| |exact H2].
      apply (nbr_right h w y x); assumption.
    Qed.
    Lemma step_v y x : S y < h -> x < w -> vok (c y x) = true -> vok (c (S y) x) = true ->
      R (c y x) (c (S y) x).
    Proof.
      intros Hy Hx H1 H2. eapply reach_step; [apply reach_refl; exact H1| |exact H2].
      apply (nbr_down h w y x); assumption.
    Qed.

    (* around the top-left corner: via the bottom-right cell *)
    Lemma blk_tl : vok (c y0 (S x0)) = true -> vok (c (S y0) (S x0)) = true -> vok (c (S y0) x0) = true ->
      R (c y0 (S x0)) (c (S y0) x0).
    Proof.
      intros Hb Hd Hc. apply reach_trans with (c (S y0) (S x0)).
      - apply step_v; try assumption; lia.
      - apply reach_sym. apply step_h; try assumption; lia.
    Qed.
    (* around the top-right corner: via the bottom-left cell *)
    Lemma blk_tr : vok (c y0 x0) = true -> vok (c (S y0) x0) = true -> vok (c (S y0) (S x0)) = true ->
      R (c y0 x0) (c (S y0) (S x0)).
    Proof.
      intros Ha Hc Hd. apply reach_trans with (c (S y0) x0).
      - apply step_v; try assumption; lia.
      - apply step_h; try assumption; lia.
    Qed.
    (* around the bottom-left corner: via the top-right cell *)
    Lemma blk_bl : vok (c y0 x0) = true -> vok (c y0 (S x0)) = true -> vok (c (S y0) (S x0)) = true ->
      R (c y0 x0) (c (S y0) (S x0)).
    Proof.
      intros Ha Hb Hd. apply reach_trans with (c y0 (S x0)).
      - apply step_h; try assumption; lia.
      - apply step_v; try assumption; lia.
    Qed.
    (* around the bottom-right corner: via the top-left cell *)
    Lemma blk_br : vok (c y0 (S x0)) = true -> vok (c y0 x0) = true -> vok (c (S y0) x0) = true ->
      R (c y0 (S x0)) (c (S y0) x0).
    Proof.
      intros Hb Ha Hc. apply reach_trans with (c y0 x0).
      - apply reach_sym. apply step_h; try assumption; lia.
      - apply step_v; try assumption; lia.
    Qed.
  End Block.

  (* ---- independence: the orthogonal neighbours of an active cell are inactive *)
  Lemma indep_nbr act v p : independent G act -> act v = true ->
    In p (nbrs G all_edges_ok v) -> inactive act p = true.
  Proof.
    intros Hind Hv Hp. apply nbrs_spec in Hp. destruct Hp as [k [_ Hk]].
    unfold inactive. destruct (act p) eqn:Ep; [|reflexivity]. exfalso.
    destruct Hk as [Hk|Hk]; apply nth_error_In in Hk; apply Hind in Hk; tauto.
  Qed.

  (* ---- the arc around an active cell *)
  Lemma ring act y x : y < h -> x < w -> act (c y x) = true -> independent G act ->
    (pin (c y x) = true -> forall u, In u (nb (c y x)) -> act u = false) ->
    (pin (c y x) = false -> forall u1 u2, In u1 (nb (c y x)) -> In u2 (nb (c y x)) -> u1 <> u2 ->
                             act u1 = true -> act u2 = true -> False) ->
    forall p q, In p (nbrs G all_edges_ok (c y x)) -> In q (nbrs G all_edges_ok (c y x)) ->
                reach G (inactive act) all_edges_ok p q.
  Proof.
    intros Hy Hx Hact Hind Hbord Hint.
    set (W := inactive act).
    assert (Hwn : forall p, In p (nbrs G all_edges_ok (c y x)) -> W p = true)
      by (intros p Hp; apply (indep_nbr act (c y x) p Hind Hact Hp)).
    assert (Hrefl : forall p, In p (nbrs G all_edges_ok (c y x)) -> reach G W all_edges_ok p p)
      by (intros p Hp; apply reach_refl; apply Hwn; exact Hp).
    (* whiteness of the four orthogonal neighbours, when they exist *)
    assert (WR : S x < w -> W (c y (S x)) = true).
    { intros H. apply Hwn. apply (grid_nbrs_coords h w y x _ Hy Hx). left. auto. }
    assert (WD : S y < h -> W (c (S y) x) = true).
    { intros H. apply Hwn. apply (grid_nbrs_coords h w y x _ Hy Hx). right; left. auto. }
    assert (WL : forall x', x = S x' -> W (c y x') = true).
    { intros x' H. apply Hwn. apply (grid_nbrs_coords h w y x _ Hy Hx). right; right; left. eauto. }
    assert (WU : forall y', y = S y' -> W (c y' x) = true).
    { intros y' H. apply Hwn. apply (grid_nbrs_coords h w y x _ Hy Hx). right; right; right. eauto. }
    (* the four links *)
    assert (Wof : forall u, act u = false -> W u = true) by (intros u Hu; unfold W, inactive; rewrite Hu; reflexivity).
    assert (KDR : S y < h -> S x < w -> act (c (S y) (S x)) = false ->
                  reach G W all_edges_ok (c y (S x)) (c (S y) x)).
    { intros H1 H2 H3. apply blk_tl; auto. }
    assert (KDL : forall x', S y < h -> x = S x' -> act (c (S y) x') = false ->
                  reach G W all_edges_ok (c y x') (c (S y) x)).
    { intros x' H1 -> H3. apply blk_tr; auto; lia. }
    assert (KUR : forall y', y = S y' -> S x < w -> act (c y' (S x)) = false ->
                  reach G W all_edges_ok (c y' x) (c y (S x))).
    { intros y' -> H2 H3. apply blk_bl; auto; lia. }
    assert (KUL : forall y' x', y = S y' -> x = S x' -> act (c y' x') = false ->
                  reach G W all_edges_ok (c y' x) (c y x')).
    { intros y' x' -> -> H3. apply blk_br; auto; lia. }
    (* membership of the diagonal cells *)
    assert (DDR : S y < h -> S x < w -> In (c (S y) (S x)) (nb (c y x))).
    { intros H1 H2. apply (diag_nbrs_cells h w y x (S y) (S x)); lia. }
    assert (DDL : forall x', S y < h -> x = S x' -> In (c (S y) x') (nb (c y x))).
    { intros x' H1 H2. apply (diag_nbrs_cells h w y x (S y) x'); lia. }
    assert (DUR : forall y', y = S y' -> S x < w -> In (c y' (S x)) (nb (c y x))).
    { intros y' H1 H2. apply (diag_nbrs_cells h w y x y' (S x)); lia. }
    assert (DUL : forall y' x', y = S y' -> x = S x' -> In (c y' x') (nb (c y x))).
    { intros y' x' H1 H2. apply (diag_nbrs_cells h w y x y' x'); lia. }
    intros p q Hp Hq. pose proof (Hrefl p Hp) as Rp.
    apply (grid_nbrs_coords h w y x _ Hy Hx) in Hp. apply (grid_nbrs_coords h w y x _ Hy Hx) in Hq.
    destruct (pin (c y x)) eqn:Epin.
    - (* on the border: every diagonal neighbour in the grid is inactive *)
      specialize (Hbord eq_refl).
      apply (on_border_cell h w y x Hy Hx) in Epin.
      destruct (lt_dec (S y) h) as [Hdy|Hdy]; destruct (lt_dec (S x) w) as [Hdx|Hdx];
        destruct y as [|y']; destruct x as [|x']; try (exfalso; lia).
      all: try (pose proof (KDR Hdy Hdx (Hbord _ (DDR Hdy Hdx))) as LDR).
      all: try (pose proof (KDL _ Hdy eq_refl (Hbord _ (DDL _ Hdy eq_refl))) as LDL).
      all: try (pose proof (KUR _ eq_refl Hdx (Hbord _ (DUR _ eq_refl Hdx))) as LUR).
      all: try (pose proof (KUL _ _ eq_refl eq_refl (Hbord _ (DUL _ _ eq_refl eq_refl))) as LUL).
      all: clear KDR KDL KUR KUL.
      all: destruct Hp as [[Hp1 ->]|[[Hp1 ->]|[[xp [Hp1 ->]]|[yp [Hp1 ->]]]]]; try (exfalso; lia);
           destruct Hq as [[Hq1 ->]|[[Hq1 ->]|[[xq [Hq1 ->]]|[yq [Hq1 ->]]]]]; try (exfalso; lia).
      all: try (injection Hp1 as <-); try (injection Hq1 as <-).
      all: rch3.
    - assert (Hnb : ~ (y = 0 \/ x = 0 \/ S y = h \/ S x = w)).
      { intros H. apply (on_border_cell h w y x Hy Hx) in H. unfold pin in Epin. congruence. }
      specialize (Hint eq_refl).
      destruct y as [|y']; [exfalso; lia|]. destruct x as [|x']; [exfalso; lia|].
      assert (Hdy : S (S y') < h) by lia. assert (Hdx : S (S x') < w) by lia.
      pose proof (DDR Hdy Hdx) as I1. pose proof (DDL _ Hdy eq_refl) as I2.
      pose proof (DUR _ eq_refl Hdx) as I3. pose proof (DUL _ _ eq_refl eq_refl) as I4.
      assert (Hne : forall y1 x1 y2 x2, x1 < w -> x2 < w -> (y1 <> y2 \/ x1 <> x2) -> c y1 x1 <> c y2 x2).
      { intros y1 x1 y2 x2 H1 H2 H3 E. apply (cell_inj w _ _ _ _ H1 H2) in E. lia. }
      assert (E12 : act (c (S (S y')) (S (S x'))) = true -> act (c (S (S y')) x') = true -> False) by (apply (Hint _ _ I1 I2); apply Hne; lia).
      assert (E13 : act (c (S (S y')) (S (S x'))) = true -> act (c y' (S (S x'))) = true -> False) by (apply (Hint _ _ I1 I3); apply Hne; lia).
      assert (E14 : act (c (S (S y')) (S (S x'))) = true -> act (c y' x') = true -> False) by (apply (Hint _ _ I1 I4); apply Hne; lia).
      assert (E23 : act (c (S (S y')) x') = true -> act (c y' (S (S x'))) = true -> False) by (apply (Hint _ _ I2 I3); apply Hne; lia).
      assert (E24 : act (c (S (S y')) x') = true -> act (c y' x') = true -> False) by (apply (Hint _ _ I2 I4); apply Hne; lia).
      assert (E34 : act (c y' (S (S x'))) = true -> act (c y' x') = true -> False) by (apply (Hint _ _ I3 I4); apply Hne; lia).
      destruct (act (c (S (S y')) (S (S x')))) eqn:A1; destruct (act (c (S (S y')) x')) eqn:A2;
        destruct (act (c y' (S (S x')))) eqn:A3; destruct (act (c y' x')) eqn:A4;
        try (exfalso; auto; fail).
      all: try (pose proof (KDR Hdy Hdx eq_refl) as LDR).
      all: try (pose proof (KDL _ Hdy eq_refl A2) as LDL).
      all: try (pose proof (KUR _ eq_refl Hdx A3) as LUR).
      all: try (pose proof (KUL _ _ eq_refl eq_refl A4) as LUL).
      all: clear KDR KDL KUR KUL.
      all: destruct Hp as [[Hp1 ->]|[[Hp1 ->]|[[xp [Hp1 ->]]|[yp [Hp1 ->]]]]]; try (exfalso; lia);
           destruct Hq as [[Hq1 ->]|[[Hq1 ->]|[[xq [Hq1 ->]]|[yq [Hq1 ->]]]]]; try (exfalso; lia).
      all: try (injection Hp1 as <-); try (injection Hq1 as <-).
      all: rch3.
  Qed.

  Lemma indep_sub act act' :
    (forall x, act' x = true -> act x = true) -> independent G act -> independent G act'.
  Proof.
    intros Hsub Hind a b Hin [Ha Hb]. apply (Hind a b Hin). split; apply Hsub; assumption.
  Qed.

  (* ---- induction on the number of active cells *)
  Theorem cert_connected rank : forall k act,
    length (filter act (seq 0 n)) <= k ->
    g_cert n nb act pin rank -> independent G act -> connected G (inactive act).
  Proof.
    induction k as [|k IH]; intros act Hk Hc Hind.
    - apply full_grid_connected. intros v Hv. unfold inactive. destruct (act v) eqn:E; [|reflexivity]. exfalso.
      assert (H : In v (filter act (seq 0 n))) by (apply filter_In; split; [apply in_seq; lia|exact E]).
      destruct (filter act (seq 0 n)); [destruct H|simpl in Hk; lia].
    - destruct (existsb act (seq 0 n)) eqn:Ex.
      2:{ apply full_grid_connected. intros v Hv. unfold inactive. destruct (act v) eqn:E; [|reflexivity].
          assert (existsb act (seq 0 n) = true) by (apply existsb_exists; exists v; split; [apply in_seq; lia|exact E]).
          congruence. }
      apply existsb_exists in Ex. destruct Ex as [v0 [Hv0 Ha0]]. apply in_seq in Hv0.
      assert (Hv0' : v0 < n) by lia.
      destruct (argmax rank act n (ex_intro _ v0 (conj Hv0' Ha0))) as [v [Hv [Ha Hmax]]].
      set (act' := fun u => act u && negb (Nat.eqb u v)).
      assert (Hsub : forall x, act' x = true -> act x = true).
      { intros x H. unfold act' in H. apply andb_true_iff in H. tauto. }
      assert (Hc' : g_cert n nb act' pin rank).
      { destruct Hc as [Hc1 Hc2]. split; [exact Hc1|]. intros u Hu Hau.
        eapply Nat.le_trans; [|apply (Hc2 u Hu (Hsub u Hau))]. unfold lowers. apply filter_length_mono.
        intros z _ Hz. apply andb_true_iff in Hz. destruct Hz as [Hz1 Hz2]. rewrite Hz1, (Hsub z Hz2). reflexivity. }
      assert (Hind' : independent G act') by (apply (indep_sub act act' Hsub Hind)).
      assert (Hlen : length (filter act' (seq 0 n)) <= k).
      { assert (length (filter act' (seq 0 n)) < length (filter act (seq 0 n))); [|lia].
        apply (filter_length_strict act' act _ v); [intros x _; apply Hsub|apply in_seq; lia| |exact Ha].
        unfold act'. rewrite Nat.eqb_refl, andb_false_r. reflexivity. }
      pose proof (IH act' Hlen Hc' Hind') as Hconn'.
      destruct (cell_coords h w v Hv) as [Hy [Hx Ev]].
      assert (Hdiag : length (filter act (nb v)) <= cap pin v).
      { destruct Hc as [Hc1 Hc2]. eapply Nat.le_trans; [|apply (Hc2 v Hv Ha)]. unfold lowers.
        apply filter_length_mono. intros u Hu Hau. rewrite Hau, andb_true_r. apply Z.ltb_lt.
        pose proof (Hc1 v u Hv Hu) as Hne. assert (Hun : u < n) by apply (diag_nbrs_lt h w v u Hv Hu).
        specialize (Hmax u Hun Hau). lia. }
      assert (Hring : forall p q, In p (nbrs G all_edges_ok v) -> In q (nbrs G all_edges_ok v) ->
                        reach G (inactive act) all_edges_ok p q).
      { rewrite Ev. apply ring; try assumption; rewrite <- Ev; try assumption.
        - intros Hp u Hu. unfold cap in Hdiag. rewrite Hp in Hdiag.
          destruct (act u) eqn:Eu; [|reflexivity]. exfalso.
          assert (Hin : In u (filter act (nb v))) by (apply filter_In; tauto).
          destruct (filter act (nb v)); [destruct Hin|simpl in Hdiag; lia].
        - intros Hp u1 u2 H1 H2 Hne A1 A2. unfold cap in Hdiag. rewrite Hp in Hdiag.
          apply (filter_le1_distinct act (nb v) u1 u2 (diag_nbrs_nodup h w v) Hdiag H1 H2 Hne A1 A2). }
      assert (Hvw : inactive act v = false) by (unfold inactive; rewrite Ha; reflexivity).
      assert (Hvok' : forall x, inactive act' x = inactive act x || Nat.eqb x v).
      { intros x. unfold inactive, act'. rewrite negb_andb, negb_involutive. reflexivity. }
      intros a b Han Hbn Hwa Hwb.
      assert (Hwa' : inactive act' a = true) by (rewrite Hvok', Hwa; reflexivity).
      assert (Hwb' : inactive act' b = true) by (rewrite Hvok', Hwb; reflexivity).
      pose proof (Hconn' a b Han Hbn Hwa' Hwb') as Hr.
      destruct (reroute G all_edges_ok (inactive act) (inactive act') v Hvw Hvok'
                  (fun p q Hp Hq _ _ => Hring p q Hp Hq) a b Hr Hwa) as [H1 _].
      apply H1. intros ->. congruence.
  Qed.

  (* direction A: the diagonal forest condition implies that the inactive cells are connected *)
  Theorem diag_equiv_dirA_section act :
    independent G act -> spec_diag h w act -> connected G (inactive act).
  Proof.
    intros Hind Hs. destruct (diag_rank_complete h w act Hs) as [Hcert _].
    apply cert_diag_iff in Hcert.
    apply (cert_connected (diag_rank h w act) (length (filter act (seq 0 n))) act (le_n _) Hcert Hind).
  Qed.
End DirA.

Theorem diag_equiv_dirA : forall h w act, 2 <= h -> 2 <= w ->
  independent (grid_graph h w) act -> spec_diag h w act -> connected (grid_graph h w) (inactive act).
Proof. intros h w act Hh Hw. apply diag_equiv_dirA_section; assumption. Qed.
