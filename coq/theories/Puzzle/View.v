(* C11 Tier 1 - model of cspuz/puzzle/view.py::solve_view(height, width, problem), all board shapes:
       has_number = solver.bool_array((height, width))
       graph.active_vertices_connected(solver, has_number)            # declares h*w ranks and h*w root flags
       nums = solver.int_array((height, width), 0, height + width)
       solver.add_answer_key(nums); solver.add_answer_key(has_number)
       to_up = solver.int_array((height, width), 0, height - 1)
       ensure(to_up[0, :] == 0); ensure(to_up[1:, :] == has_number[:-1, :].cond(0, to_up[:-1, :] + 1))
       to_down (0 .. height - 1), to_left, to_right (0 .. width - 1): the same from the other three edges
       ensure(has_number.then(nums == to_up + to_left + to_down + to_right))
       ensure((has_number[:-1, :] & has_number[1:, :]).then(nums[:-1, :] != nums[1:, :]))
       ensure((has_number[:, :-1] & has_number[:, 1:]).then(nums[:, :-1] != nums[:, 1:]))
       ensure((~has_number).then(nums == 0))
       for every cell with problem[y][x] >= 0: ensure(nums[y, x] == problem[y][x]); ensure(has_number[y, x])
   Variable ids, n = h*w:  has_number 0 .. n-1, ranks n .. 2n-1, roots 2n .. 3n-1, nums 3n .. 4n-1,
   to_up 4n .., to_down 5n .., to_left 6n .., to_right 7n .. 8n-1; the answer keys are nums, then has_number.
   The call into cspuz.graph is the model of property C04 (Graph/Avc.v::post_avc on the grid graph); on a
   board without cells it raises ValueError (before anything else can go wrong).
   The problem uses the encoding of Rules_view.v ([[h; w]; given]); a cell is a given number when its value
   is >= 0.  The Python reads problem[y][x] cell by cell and raises IndexError when a row or a cell is missing;
   with the flattened encoding the model raises IndexError when fewer than h*w values are supplied (the
   plug-in's malformed problems only drop trailing cells; rows longer than w are never generated).
   No proofs here. *)
From Coq Require Import ZArith List Bool Arith.
From Cspuz Require Import Lib.PyErr Core.Expr Core.Program Graph.GraphModel Graph.Avc
     Puzzle.PuzzleBase Puzzle.ModelBase.
Import ListNotations.
Local Open Scope nat_scope.

Definition vw_has (w : nat) (c : nat * nat) : expr := BVar (cidx w c).
Definition vw_num (h w : nat) (c : nat * nat) : expr := IVar (3 * (h * w) + cidx w c) 0 (Z.of_nat (h + w)).
Definition vw_up (h w : nat) (c : nat * nat) : expr := IVar (4 * (h * w) + cidx w c) 0 (Z.of_nat h - 1).
Definition vw_down (h w : nat) (c : nat * nat) : expr := IVar (5 * (h * w) + cidx w c) 0 (Z.of_nat h - 1).
Definition vw_left (h w : nat) (c : nat * nat) : expr := IVar (6 * (h * w) + cidx w c) 0 (Z.of_nat w - 1).
Definition vw_right (h w : nat) (c : nat * nat) : expr := IVar (7 * (h * w) + cidx w c) 0 (Z.of_nat w - 1).

(* a == 0 *)
Definition vw_zero (a : expr) : expr := BNode EQ [a; PyInt 0].
(* a == b.cond(0, p + 1) *)
Definition vw_step (a b p : expr) : expr := BNode EQ [a; INode IF [b; PyInt 0; INode ADD [p; PyInt 1]]].

Definition view_up (h w : nat) : list expr :=
  map (fun x => vw_zero (vw_up h w (0, x))) (seq 0 w) ++
  map (fun '(y, x) => vw_step (vw_up h w (S y, x)) (vw_has w (y, x)) (vw_up h w (y, x))) (cells (h - 1) w).
Definition view_down (h w : nat) : list expr :=
  map (fun x => vw_zero (vw_down h w (h - 1, x))) (seq 0 w) ++
  map (fun '(y, x) => vw_step (vw_down h w (y, x)) (vw_has w (S y, x)) (vw_down h w (S y, x))) (cells (h - 1) w).
Definition view_left (h w : nat) : list expr :=
  map (fun y => vw_zero (vw_left h w (y, 0))) (seq 0 h) ++
  map (fun '(y, x) => vw_step (vw_left h w (y, S x)) (vw_has w (y, x)) (vw_left h w (y, x))) (cells h (w - 1)).
Definition view_right (h w : nat) : list expr :=
  map (fun y => vw_zero (vw_right h w (y, w - 1))) (seq 0 h) ++
  map (fun '(y, x) => vw_step (vw_right h w (y, x)) (vw_has w (y, S x)) (vw_right h w (y, S x))) (cells h (w - 1)).

Definition view_sum (h w : nat) (c : nat * nat) : expr :=
  BNode IMP [vw_has w c;
             BNode EQ [vw_num h w c;
                       INode ADD [INode ADD [INode ADD [vw_up h w c; vw_left h w c]; vw_down h w c]; vw_right h w c]]].
Definition view_ne (h w : nat) (a b : nat * nat) : expr :=
  BNode IMP [BNode AND [vw_has w a; vw_has w b]; BNode NE [vw_num h w a; vw_num h w b]].
Definition view_blank (h w : nat) (c : nat * nat) : expr :=
  BNode IMP [BNode NOT [vw_has w c]; BNode EQ [vw_num h w c; PyInt 0]].
Definition view_clue (h w : nat) (grid : list Z) (c : nat * nat) : list expr :=
  let v := at2 grid w (fst c) (snd c) in
  if (0 <=? v)%Z then [BNode EQ [vw_num h w c; PyInt v]; vw_has w c] else [].

Definition view_local (h w : nat) (grid : list Z) : list expr :=
  map (view_sum h w) (cells h w) ++
  map (fun '(y, x) => view_ne h w (y, x) (S y, x)) (cells (h - 1) w) ++
  map (fun '(y, x) => view_ne h w (y, x) (y, S x)) (cells h (w - 1)) ++
  map (view_blank h w) (cells h w) ++
  flat_map (view_clue h w grid) (cells h w).

Definition solve_view_model (pb : problem) : res state :=
  let h := dim pb 0 in let w := dim pb 1 in let n := h * w in
  let '(st0, has) := bool_array empty_state n in
  match post_avc st0 has (grid_graph h w) false false with
  | Err e => Err e
  | Ok st1 =>
  match int_array st1 n 0 (Z.of_nat (h + w)) with
  | Err e => Err e
  | Ok (st2, nums) =>
  match foldM add_answer_key st2 nums with
  | Err e => Err e
  | Ok st3 =>
  match foldM add_answer_key st3 has with
  | Err e => Err e
  | Ok st4 =>
  match int_array st4 n 0 (Z.of_nat h - 1) with
  | Err e => Err e
  | Ok (st5, _) =>
  match int_array (ensure st5 (view_up h w)) n 0 (Z.of_nat h - 1) with
  | Err e => Err e
  | Ok (st6, _) =>
  match int_array (ensure st6 (view_down h w)) n 0 (Z.of_nat w - 1) with
  | Err e => Err e
  | Ok (st7, _) =>
  match int_array (ensure st7 (view_left h w)) n 0 (Z.of_nat w - 1) with
  | Err e => Err e
  | Ok (st8, _) =>
      if Nat.ltb (length (sec pb 1)) n then Err IndexError
      else Ok (ensure (ensure st8 (view_right h w)) (view_local h w (sec pb 1)))
  end end end end end end end end.
