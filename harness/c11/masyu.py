"""C11 plug-in: masyu (solve_masyu(height, width, problem)); 0 none, 1 white circle, 2 black circle."""
import c11lib as L

NAME = "masyu"
MODULE = "cspuz.puzzle.masyu"
FUNC = "solve_masyu"
LOOP = True
VALUES = [0, 1, 2]


def call(mod, pb):
    return mod.solve_masyu(pb["h"], pb["w"], pb["grid"])


def ncand(pb):
    return 2 ** L.n_loop_edges(pb['h'], pb['w'])


def encode(pb):
    return [[pb["h"], pb["w"]], L.flat(pb["grid"])]


def families(tier, rng):
    th = tier == "thorough"
    for (h, w) in [(1, 1), (1, 2), (2, 1), (2, 2), (1, 3), (3, 1)] + ([(2, 3), (3, 2)] if th else []):
        for g in L.all_grids(h, w, VALUES):
            yield {"h": h, "w": w, "grid": g}
    if not th:
        for (h, w) in [(2, 3), (3, 2)]:
            for g in L.sample(rng, L.all_grids(h, w, VALUES), 60):
                yield {"h": h, "w": w, "grid": g}
    for (h, w) in [(3, 3), (2, 4), (4, 2), (2, 5)] + ([(3, 4), (4, 3)] if th else []):
        for _ in range(150 if th else 25):
            yield {"h": h, "w": w, "grid": L.random_grid(rng, h, w, VALUES, 0.6)}


def tier2(tier, rng):
    for (h, w) in [(1, 1), (1, 2), (2, 1)]:
        for g in L.all_grids(h, w, VALUES):
            yield {"h": h, "w": w, "grid": g}
    for g in L.sample(rng, L.all_grids(2, 2, VALUES), 40 if tier == "thorough" else 6):
        yield {"h": 2, "w": 2, "grid": g}
