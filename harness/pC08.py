"""C08 — active_vertices_not_adjacent / ..._and_not_segmenting match their graph definitions."""
import itertools

import exprio
import graphcap
import vlib

PROPS = "Props/C08.v"
RULE = ("tie P (program capture): for every (helper, graph-or-grid, is_active form) case the program really posted by "
        "cspuz.graph.active_vertices_not_adjacent / active_vertices_not_adjacent_and_not_segmenting on a Solver that "
        "already holds caller variables is compared verbatim (declarations, answer keys, constraints in posting order) "
        "with the program of the extracted Coq model (post_not_adjacent / post_not_segmenting); error cases compare the "
        "exception class (and for not_adjacent the partially posted program).  A case is non-trivial when it is a "
        "distinct (helper, graph/shape, form, config, argument trees) tuple.  Graphs: all multigraphs with <= 4 "
        "vertices and <= 5 edges (parallel edges and self-loops included), shuffled/flipped copies, random multigraphs "
        "up to 9 vertices, grid graphs given explicitly, the 0-vertex graph; grids: every shape with h*w <= 12 (incl. "
        "1xN, Nx1, 1x1) and empty shapes 0xN / Nx0; is_active forms: BoolArray1D/2D of variables, of ~v, v&w, v|w, mixed "
        "expressions, lists/tuples of variables, expressions and Python True/False; config.use_graph_primitive False "
        "and True; malformed stream: wrong container for the chosen route, short lists, int / IntExpr / None entries.  "
        "search: the set of activity patterns accepted by the really posted program (all-solutions enumeration with z3 "
        "over the is_active variables; the harness's own tree->z3 translation, not cspuz.backend.z3) is compared with "
        "the independent Python oracle 'no edge with two active endpoints, and the inactive vertices are connected' "
        "for every pattern of every graph / grid shape in scope (all multigraphs with <= 4 vertices and <= 4 edges incl. "
        "self-loops (thorough: 5 edges), every simple graph on 5 vertices, random multigraphs; every grid shape with "
        "h*w <= 12, thorough 16), and the grid form is compared with the explicit-graph "
        "form on the same grid; constant (Python bool) patterns are evaluated directly; the Coq specifications "
        "(independent_b, connected_b, spec_diag_b) are validated against the same oracle; z3 rank models are re-checked "
        "by the Coq certificate checker cert_diag and the Coq rank construction diag_rank is replayed on the real program.  "
        "Hardening (HARDEN_BRIEF classes 1-6): tie -- arrays built from one-shot iterables (generator, map, iter, rows "
        "of generators), every call also by keyword (graph=, all keywords, explicit graph=None), a second identical call "
        "on the same Solver / is_active / Graph (the model continues from the state of the first), Graph objects already "
        "used by an earlier call and extended afterwards, is_active and graph compared before/after the call "
        "(arguments-unchanged), boards and paths with > 256 cells / vertices / rank bounds built from run-time ints "
        "(3x180, 23x23, 1x300, 300-vertex path with reversed edges and a loop); search -- the same call forms and "
        "histories (plus ~v arrays, lists with Python bools, a generator as is_active: rejecting it with TypeError is "
        "accepted, any other outcome must equal the list form) on a sample of the graphs and grids in scope; every "
        "small multigraph with all edges stored (larger, smaller) or mixed and shuffled, cycles closed by a reversed "
        "edge, loops inside cycles, structured graphs with 5-10 vertices (K5-K7, wheels, prisms, paths, cycles, two "
        "cycles, K33, K34, Petersen, binary tree) as-is / reversed / mixed / with a parallel reversed edge / with a "
        "loop; targeted patterns on boards 4x5, 5x4, 5x5, 6x6, 7x7, 3x7, 7x3, 2x8 (grid form vs explicit-graph form "
        "vs oracle; on 36+ cells the explicit-graph form is decided by z3 under a timeout for a few patterns per family, "
        "'unknown' counted as inconclusive) and 8x8, 9x9, 7x10, 11x11 (grid form vs oracle): X shapes, stars with "
        "3-4 diagonal arms of 1-2 cells, longest induced diagonal chains hanging from the border / free / joining two "
        "border cells (depth-first search, harness/c08pat.py) with prefixes and mirrored copies, zig-zags, staircases, "
        "closed and opened rings, checkerboards, random diagonal-rich patterns; accepted patterns there are re-checked "
        "by cert_diag and diag_rank as above.")
TRUSTED = [
    "reading of the property: 'not adjacent' = no edge of the graph has two active endpoints (a self-loop on an "
    "active vertex counts); 'not segmenting' = the inactive vertices induce a connected subgraph (vacuous when "
    "there is none); grid graph = orthogonal adjacency of cells y*w+x -- validated on every run against oracles "
    "written independently in Python (graphcap.is_connected, graphcap.grid_edges)",
    "reading of the grid specialisation: diagonal pairs of active cells form a forest (every pair is a bridge) "
    "and no two distinct border cells are joined by a diagonal walk (Graph/NotAdj.v::spec_diag)",
    "Core/Expr.v::eval as the meaning of the posted trees; z3 (search only) as the decision procedure for the "
    "really posted program, through the harness's own translation of trees to z3 terms",
    "the model of the callee active_vertices_connected and its exactness theorem avc_exact are the C04 "
    "development's (Graph/Avc.v, AvcProofs.v); they are imported, not re-proved (tie of that model: ./check C04)",
    "exprio.py / exprio.ml serialisation of trees and solver states used by the capture comparison",
]
ASSUMPTIONS = [
    "graph is a cspuz.graph.Graph built with add_edge on vertices 0..n-1",
    "elements of a BoolArray1D / BoolArray2D are BoolExpr objects (variables or expressions); lists may also hold "
    "Python bools",
    "is_active has at least num_vertices entries (shorter: IndexError, modelled); h, w >= 1 for the segmenting "
    "helpers (empty shapes / 0 vertices raise ValueError from int_array; modelled and checked)",
    "(no longer an assumption) the unbounded equivalence 'diagonal forest condition <=> complement connected' "
    "(diag_equiv_statement) is proved for every h, w >= 2 (Props/C08.v::diag_equiv, from Graph/NotAdjPlanarA.v and "
    "NotAdjPlanarB.v); independent cross-checks kept: kernel computation for all shapes with h*w <= 16 "
    "(diag_equiv_bounded; thorough tier: h*w <= 20, Graph/NotAdjBounded20.v) and the z3 search on the real program "
    "for h*w <= 12 (thorough 16)",
]

def generated_obligations(ctx, proof, broken):
    """thorough tier: the kernel-checked bound of diag_equiv is raised from h*w <= 16 to h*w <= 20
    (Graph/NotAdjBounded20.v, ~6 min of vm_compute, not in the closure of Props/C08.v)."""
    if not ctx.thorough:
        return
    proof["generated_obligations"] = proof.get("generated_obligations", 0) + 1
    with vlib.Lock():
        rc, out = vlib.coq_make(["theories/Graph/NotAdjBounded20.vo"], timeout=3000)
    if rc != 0 or "Closed under the global context" not in out and "NotAdjBounded20" in out and "Axioms" in out:
        broken.append(("proof:diag_equiv_20", out[-2000:]))
    else:
        proof["generated_discharged"] = proof.get("generated_discharged", 0) + 1
        ctx.note("thorough: diag_equiv_20 (h*w <= 20) rebuilt / up to date")


ERR = {1: "IndexError", 2: "KeyError", 3: "AssertionError", 4: "TypeError", 5: "ValueError",
       6: "RecursionError", 7: "NotImplementedError", 8: "Other"}


def err_norm(name):
    """the model has one code for everything outside its enum (AttributeError -> Other)"""
    return name if name in ERR.values() else "Other"


# ---------------------------------------------------------------- own tree -> z3 translation

def to_z3(e, zv):
    import z3
    from cspuz.expr import BoolVar, IntVar, Op
    if e is True or e is False:
        return z3.BoolVal(e)
    if isinstance(e, int):
        return z3.IntVal(e)
    if isinstance(e, (BoolVar, IntVar)):
        return zv[e.id]
    ops = [to_z3(x, zv) for x in e.operands]
    op = e.op
    if op in (Op.BOOL_CONSTANT, Op.INT_CONSTANT):
        return ops[0]
    if op == Op.NEG:
        return -ops[0]
    if op == Op.ADD:
        return z3.Sum(ops)
    if op == Op.SUB:
        r = ops[0]
        for x in ops[1:]:
            r = r - x
        return r
    if op == Op.EQ:
        return ops[0] == ops[1]
    if op == Op.NE:
        return ops[0] != ops[1]
    if op == Op.LE:
        return ops[0] <= ops[1]
    if op == Op.LT:
        return ops[0] < ops[1]
    if op == Op.GE:
        return ops[0] >= ops[1]
    if op == Op.GT:
        return ops[0] > ops[1]
    if op == Op.NOT:
        return z3.Not(ops[0])
    if op == Op.AND:
        return z3.And(*ops) if ops else z3.BoolVal(True)
    if op == Op.OR:
        return z3.Or(*ops) if ops else z3.BoolVal(False)
    if op == Op.XOR:
        return z3.Xor(ops[0], ops[1])
    if op == Op.IFF:
        return ops[0] == ops[1]
    if op == Op.IMP:
        return z3.Implies(ops[0], ops[1])
    if op == Op.IF:
        return z3.If(ops[0], ops[1], ops[2])
    if op == Op.ALLDIFF:
        return z3.Distinct(*ops) if len(ops) >= 2 else z3.BoolVal(True)
    raise NotImplementedError(op.name)


class Z3Prog:
    """the z3 problem of a posted program (domains + constraints)."""

    def __init__(self, solver):
        import z3
        from cspuz.expr import BoolVar
        self.z3 = z3
        self.solver = solver
        self.zv = {}
        self.zs = z3.Solver()
        for v in solver.variables:
            if isinstance(v, BoolVar):
                self.zv[v.id] = z3.Bool("b%d" % v.id)
            else:
                self.zv[v.id] = z3.Int("i%d" % v.id)
                self.zs.add(v.lo <= self.zv[v.id], self.zv[v.id] <= v.hi)
        for c in solver.constraints:
            self.zs.add(to_z3(c, self.zv))

    def check(self, fixed, want_model=False, timeout_ms=None):
        """satisfiability with the given (variable, value) pairs fixed; with timeout_ms the answer may be
        None (z3 gave up: inconclusive, never counted as accept or reject)"""
        from cspuz.expr import BoolVar
        z3 = self.z3
        self.zs.push()
        for v, val in fixed:
            zv = self.zv[v.id]
            self.zs.add((zv if val else z3.Not(zv)) if isinstance(v, BoolVar) else zv == val)
        if timeout_ms is not None:
            self.zs.set("timeout", int(timeout_ms))
            res = self.zs.check()
            self.zs.set("timeout", 4294967295)
            if res == z3.unknown:
                self.zs.pop()
                return (None, None) if want_model else None
            r = res == z3.sat
        else:
            r = self.zs.check() == z3.sat
        model = None
        if r and want_model:
            m = self.zs.model()
            model = {}
            for v in self.solver.variables:
                val = m.eval(self.zv[v.id], model_completion=True)
                model[v.id] = z3.is_true(val) if isinstance(v, BoolVar) else val.as_long()
        self.zs.pop()
        return (r, model) if want_model else r

    def accepted(self, proj):
        """all assignments of the BoolVars `proj` that extend to a solution (blocking-clause enumeration);
        yields (pattern tuple, full model dict)."""
        from cspuz.expr import BoolVar
        z3 = self.z3
        self.zs.push()
        zp = [self.zv[v.id] for v in proj]
        while self.zs.check() == z3.sat:
            m = self.zs.model()
            pat = tuple(z3.is_true(m.eval(z, model_completion=True)) for z in zp)
            model = {}
            for v in self.solver.variables:
                val = m.eval(self.zv[v.id], model_completion=True)
                model[v.id] = z3.is_true(val) if isinstance(v, BoolVar) else val.as_long()
            yield pat, model
            self.zs.add(z3.Or([z3.Not(z) if b else z for z, b in zip(zp, pat)]) if zp else z3.BoolVal(False))
        self.zs.pop()


# ---------------------------------------------------------------- oracles (independent, plain Python)

def oracle_independent(edges, act):
    return not any(act[a] and act[b] for (a, b) in edges)


def oracle_not_segmenting(n, edges, act):
    return oracle_independent(edges, act) and graphcap.is_connected(n, edges, [not a for a in act])


def bits(p):
    return "".join("1" if b else "0" for b in p)


# ---------------------------------------------------------------- argument forms

FORMS_1D = ["array", "vars", "neg", "and", "or", "mixed-array", "const", "mixed-list", "tuple", "gen-array", "map-array"]
FORMS_2D = ["array", "neg", "and", "or", "mixed", "iter2d", "rows-gen"]
BAD_1D = ["short", "int", "intexpr", "none", "as2d"]


def some_expr(s, pool, rng):
    v, w = pool[rng.randrange(len(pool))], pool[rng.randrange(len(pool))]
    return [v, ~v, v & w, v | w, (v == w), v ^ w, ~(v & ~w)][rng.randrange(7)]


def make_arg_1d(s, n, form, rng, want_array=False):
    """returns (argument object, kind tag 'S'|'1'|'2 h w', trees); want_array: wrap list forms into a
    BoolArray1D (the segmenting helper only accepts arrays on the explicit-graph route)"""
    from cspuz.array import BoolArray1D, BoolArray2D
    if want_array and form in ("vars", "or", "const", "mixed-list", "tuple"):
        _, _, l = make_arg_1d(s, n, form, rng)
        return BoolArray1D(l), "1", list(l)
    if form == "array":
        a = s.bool_array(n)
        return a, "1", list(a.data)
    if form == "vars":
        l = [s.bool_var() for _ in range(n)]
        return l, "S", l
    if form == "neg":
        a = ~s.bool_array(n)
        return a, "1", list(a.data)
    if form == "and":
        a = s.bool_array(n) & s.bool_array(n)
        return a, "1", list(a.data)
    if form == "or":
        l = [s.bool_var() | ~s.bool_var() for _ in range(n)]
        return l, "S", l
    pool = [s.bool_var() for _ in range(n + 1)]
    if form in ("gen-array", "map-array"):
        # arrays built from one-shot iterables (generator, map over a reversed iterator)
        l = [some_expr(s, pool, rng) for _ in range(n)]
        a = BoolArray1D(x for x in l) if form == "gen-array" else BoolArray1D(map(lambda x: x, iter(l)))
        return a, "1", l
    if form == "mixed-array":
        l = [some_expr(s, pool, rng) for _ in range(n)]
        return BoolArray1D(l), "1", l
    if form == "const":
        l = [rng.random() < 0.4 for _ in range(n)]
        return l, "S", l
    if form in ("mixed-list", "tuple"):
        l = []
        for _ in range(n):
            c = rng.randrange(4)
            l.append(True if c == 0 else False if c == 1 else some_expr(s, pool, rng))
        return (tuple(l) if form == "tuple" else l), "S", l
    # malformed stream
    base = [s.bool_var() for _ in range(n)]
    if form == "short":
        l = base[:rng.randrange(n)] if n else base
        if rng.random() < 0.5:
            return BoolArray1D(l), "1", l
        return l, "S", l
    if form == "as2d":
        a = BoolArray2D(base, (1, n))
        return a, "2 1 %d" % n, base
    k = rng.randrange(n) if n else 0
    bad = {"int": rng.choice([0, 1, 5]), "intexpr": s.int_var(0, 3), "none": None}[form]
    l = list(base)
    if n:
        l[k] = bad
    return l, "S", l


def make_arg_2d(s, h, w, form, rng):
    from cspuz.array import BoolArray2D
    if form == "array":
        a = s.bool_array((h, w))
    elif form == "neg":
        a = ~s.bool_array((h, w))
    elif form == "and":
        a = s.bool_array((h, w)) & s.bool_array((h, w))
    elif form == "or":
        a = s.bool_array((h, w)) | ~s.bool_array((h, w))
    elif form == "iter2d":
        # flat one-shot iterator + a shape whose ints are created at run time
        l = [s.bool_var() for _ in range(h * w)]
        a = BoolArray2D(iter(l), (int(str(h)), int(str(w))))
    elif form == "rows-gen" and h >= 1 and w >= 1:
        l = [s.bool_var() for _ in range(h * w)]
        a = BoolArray2D((~x for x in l[y * w:(y + 1) * w]) for y in range(h))
    else:
        pool = [s.bool_var() for _ in range(h * w + 1)]
        a = BoolArray2D([some_expr(s, pool, rng) for _ in range(h * w)], (h, w))
    return a, "2 %d %d" % (h, w), list(a.data)


def pre_state(s, style):
    """caller-side variables / constraints / answer keys already in the solver."""
    if style == 0:
        return
    a = s.bool_var()
    if style >= 2:
        x = s.int_var(-2, 5)
        s.ensure(a | (x > 0))
        s.add_answer_key(a)


def run_impl(helper, s, arg, g, prim, kw="pos"):
    """kw: how the arguments are passed -- positionally, graph= by keyword (explicitly None on the grid route),
    or everything by keyword"""
    from cspuz import graph as G
    from cspuz.configuration import config
    old = config.use_graph_primitive
    config.use_graph_primitive = prim
    try:
        f = G.active_vertices_not_adjacent if helper == "NA" else G.active_vertices_not_adjacent_and_not_segmenting
        if kw == "all-kw":
            r = vlib.guarded(f, solver=s, is_active=arg, graph=g)
        elif kw == "graph-kw":
            r = vlib.guarded(f, s, arg, graph=g)
        else:
            r = vlib.guarded(f, s, arg) if g is None else vlib.guarded(f, s, arg, g)
    finally:
        config.use_graph_primitive = old
    st = exprio.show_state(s)
    if r[0] == "ok":
        return ("ok", st)
    if helper == "NA":
        return ("err", err_norm(r[1]), st)
    return ("err", err_norm(r[1]))


def parse_post(helper, o):
    if o.startswith("OK "):
        return ("ok", o[3:])
    if o.startswith("E "):
        t = o.split(" ", 2)
        if helper == "NA":
            return ("err", ERR[int(t[1])], t[2])
        return ("err", ERR[int(t[1])])
    raise RuntimeError("bad model reply " + o[:200])


def add_case(ctx, reqs, metas, helper, gspec, form, style, prim, two_d=None, wrong_route=False):
    """gspec = (n, edges) or None (grid route); two_d = (h, w) for BoolArray2D arguments."""
    from cspuz import Solver
    s = Solver()
    pre_state(s, style)
    if two_d is not None:
        arg, tag, trees = make_arg_2d(s, two_d[0], two_d[1], form, ctx.rng)
    else:
        arg, tag, trees = make_arg_1d(s, gspec[0] if gspec else ctx.rng.randrange(1, 5), form, ctx.rng,
                                      want_array=(helper == "NS" and gspec is not None and ctx.rng.random() < 0.85))
    rng = ctx.rng
    history = "once"
    if gspec is None:
        g = None
    elif gspec[1] and rng.random() < 0.12:
        # history: the Graph object was already used by an earlier call (other solver) and extended afterwards
        history = "graph-extended-after-earlier-call"
        k = rng.randrange(len(gspec[1]))
        g = graphcap.mk_graph(gspec[0], gspec[1][:k])
        s0 = Solver()
        run_impl(helper, s0, s0.bool_array(gspec[0]), g, prim)
        for (a, b) in gspec[1][k:]:
            g.add_edge(int(str(a)), int(str(b)))
    else:
        g = graphcap.mk_graph(gspec[0], gspec[1])
    pre = exprio.show_state(s)
    try:
        atok = exprio.show_list(trees)
    except TypeError:
        return
    gtok = "N" if gspec is None else "G " + graphcap.graph_tok(gspec[0], gspec[1])
    kw = rng.choice(VAR_KW) if rng.random() < 0.4 else "pos"
    ctx.count("h:corr-kw:" + kw)
    before = snapshot(arg, g)
    impl = run_impl(helper, s, arg, g, prim, kw)
    head = "NA" if helper == "NA" else "NS %d" % (1 if prim else 0)
    gkey = gspec if gspec is None else (gspec[0], tuple(gspec[1]))
    reqs.append("%s %s %s %s %s" % (head, gtok, tag, atok, pre))
    metas.append((helper, gkey, two_d, form, style, prim, atok, impl))
    if impl[0] == "ok" and rng.random() < 0.15:
        # history: the same call once more on the same Solver / is_active / Graph objects; the model continues
        # from the state the first call left
        history += "+second-call"
        impl2 = run_impl(helper, s, arg, g, prim, kw)
        reqs.append("%s %s %s %s %s" % (head, gtok, tag, atok, impl[1]))
        metas.append((helper, gkey, two_d, form + "/second-call", style, prim, atok, impl2))
    ctx.count("h:corr-history:" + history)
    ctx.corr("arguments-unchanged", (helper, gkey, two_d, form, atok, history), True, same_snapshot(before, snapshot(arg, g)))


def shuffled(rng, edges):
    es = [(b, a) if rng.random() < 0.5 else (a, b) for (a, b) in edges]
    rng.shuffle(es)
    return es


def corr_graphs(ctx):
    rng = ctx.rng
    for n, es in graphcap.all_multigraphs(4, 5):
        yield "small", n, es
    for n, es in graphcap.all_multigraphs(3, 3, loops=True):
        if any(a == b for a, b in es):
            yield "loops", n, shuffled(rng, es)
    for n, es in graphcap.all_multigraphs(4, 4):
        if len(es) >= 2 and rng.random() < 0.25:
            yield "small-shuffled", n, shuffled(rng, es)
    for _ in range(300 if ctx.thorough else 60):
        n, es = graphcap.random_multigraph(rng, 9)
        yield "random", n, es
    for h, w in graphcap.grid_shapes(16 if ctx.thorough else 12):
        yield "grid-as-graph", h * w, graphcap.grid_edges(h, w)
    for _ in range(3):
        yield "zero-vertices", 0, []


def correspond(ctx):
    m = ctx.model("C08")
    rng = ctx.rng
    reqs, metas = [], []
    # explicit-graph routes
    for kind, n, es in corr_graphs(ctx):
        if kind == "small":
            forms = [FORMS_1D[(len(es) + n) % 2], rng.choice(FORMS_1D[2:])]
            if rng.random() < 0.3:
                forms.append(rng.choice(BAD_1D))
        elif kind == "zero-vertices":
            forms = ["array", "vars", "const"]
        else:
            forms = FORMS_1D + [rng.choice(BAD_1D)]
        for form in forms:
            ctx.count("graphs:" + kind)
            ctx.count("form1d:" + form)
            add_case(ctx, reqs, metas, "NA", (n, es), form, rng.randrange(3), False)
            add_case(ctx, reqs, metas, "NS", (n, es), form, rng.randrange(3), rng.random() < 0.3)
    # grid routes
    shapes = list(graphcap.grid_shapes(16 if ctx.thorough else 12))
    shapes += [(0, 0), (0, 1), (0, 3), (1, 0), (4, 0)]
    for (h, w) in shapes:
        for form in FORMS_2D:
            ctx.count("shape:%dx%d" % (h, w))
            ctx.count("form2d:" + form)
            add_case(ctx, reqs, metas, "NA", None, form, rng.randrange(3), False, two_d=(h, w))
            add_case(ctx, reqs, metas, "NS", None, form, rng.randrange(3), rng.random() < 0.3, two_d=(h, w))
    # wrong container for the route
    for _ in range(40 if ctx.thorough else 12):
        h, w = rng.randrange(1, 4), rng.randrange(1, 4)
        n, es = graphcap.random_multigraph(rng, 5)
        for helper in ("NA", "NS"):
            ctx.count("wrong-route")
            add_case(ctx, reqs, metas, helper, (n, es), "array", rng.randrange(3), False, two_d=(h, w))
            add_case(ctx, reqs, metas, helper, None, rng.choice(["array", "vars", "const", "tuple"]), rng.randrange(3), False)
    # class 2 / 5: vertex numbers, cell counts and rank bounds outside CPython's small-int cache (> 256), ints
    # created at run time; boards whose posted program is compared but not solved
    big_shapes = [(3, 180), (23, 23), (7, 7), (9, 9), (2, 150), (1, 300), (300, 1)]
    for (h, w) in big_shapes if ctx.thorough else rng.sample(big_shapes[:2], 1) + rng.sample(big_shapes[2:], 2):
        for helper in ("NA", "NS"):
            ctx.count("h:corr-big-shape:%dx%d" % (h, w))
            add_case(ctx, reqs, metas, helper, None, rng.choice(["array", "iter2d", "neg"]), rng.randrange(3),
                     helper == "NS" and h * w > 200 and (h == 1 or w == 1), two_d=(h, w))
    for nbig in ([300, 600] if ctx.thorough else [300]):
        path = [(int(str(i)), int(str(i + 1))) if i % 3 else (int(str(i + 1)), int(str(i))) for i in range(nbig - 1)]
        path += [(int(str(nbig - 1)), int(str(nbig - 1))), (int(str(nbig - 1)), int(str(0)))]
        ctx.count("h:corr-big-graph:%d" % nbig)
        add_case(ctx, reqs, metas, "NA", (nbig, path), "array", 1, False)
        add_case(ctx, reqs, metas, "NA", (nbig, path), "vars", 0, False)
        add_case(ctx, reqs, metas, "NS", (nbig, path), "array", 2, True)
        add_case(ctx, reqs, metas, "NS", (nbig, path), "neg", 0, False)
    outs = m.batch(reqs)
    for meta, o in zip(metas, outs):
        helper, gspec, two_d, form, style, prim, atok, impl = meta
        mo = parse_post(helper, o)
        if impl[0] == "err" or mo[0] == "err":
            ctx.count("outcome:" + (impl[1] if impl[0] == "err" else "ok-vs-model-err"))
        else:
            ctx.count("outcome:ok")
        ctx.corr("posted-program:" + helper, (gspec, two_d, form, style, prim, atok), mo, impl)


# ---------------------------------------------------------------- search

def posted(helper, n=None, edges=None, shape=None):
    """the program really posted for is_active = fresh variables; returns (solver, is_active vars) or None on error"""
    from cspuz import Solver
    from cspuz import graph as G
    s = Solver()
    f = G.active_vertices_not_adjacent if helper == "NA" else G.active_vertices_not_adjacent_and_not_segmenting
    if shape is not None:
        a = s.bool_array(shape)
        r = vlib.guarded(f, s, a)
    else:
        a = s.bool_array(n)
        r = vlib.guarded(f, s, a, graphcap.mk_graph(n, edges))
    if r[0] == "err":
        return None, r[1]
    return s, list(a.data)


# -- input forms / call histories for the search (classes 1, 3, 4, 6 of HARDEN_BRIEF)

VAR_FORMS_GRAPH = ["neg", "array-from-gen", "array-from-map", "list", "tuple", "list-consts", "generator"]
VAR_FORMS_GRID = ["neg", "array2d-from-iter", "array2d-from-rows-gen"]
VAR_KW = ["pos", "graph-kw", "all-kw"]


def random_variant(rng, helper, grid, n, n_edges):
    """one non-default way of calling the helper: is_active form x keyword style x call history"""
    v = {}
    forms = VAR_FORMS_GRID if grid else VAR_FORMS_GRAPH
    if helper == "NS" and not grid:
        # the explicit-graph route of ..._not_segmenting is documented for BoolArray1D only
        forms = ["neg", "array-from-gen", "array-from-map"]
    if rng.random() < 0.7:
        v["form"] = rng.choice(forms)
        if v["form"] == "list-consts":
            v["consts"] = {str(i): rng.random() < 0.5 for i in range(n) if rng.random() < 0.4}
    if rng.random() < 0.5:
        v["kw"] = rng.choice(VAR_KW[1:])
    c = rng.randrange(4)
    if c == 0:
        v["twice"] = True
    elif c == 1 and not grid and n_edges >= 1:
        v["incremental"] = rng.randrange(n_edges)
    if not v:
        v["twice"] = True
    return v


def variant_tag(v):
    t = [v.get("form", "array"), v.get("kw", "pos")]
    if v.get("twice"):
        t.append("twice")
    if "incremental" in v:
        t.append("incr%d" % v["incremental"])
    if v.get("consts"):
        t.append("c" + "".join("%s%d" % (k, int(b)) for k, b in sorted(v["consts"].items(), key=lambda kv: int(kv[0]))))
    return "+".join(t)


def snapshot(arg, g):
    from cspuz.array import Array1D, Array2D
    a = None
    if isinstance(arg, (Array1D, Array2D)):
        a = ("array", type(arg), tuple(arg.shape), list(arg.data))
    elif isinstance(arg, (list, tuple)):
        a = ("seq", type(arg), len(arg), list(arg))
    gg = None if g is None else (g.num_vertices, list(g.edges), [list(l) for l in g.incident_edges])
    return a, gg


def same_snapshot(x, y):
    (a, g), (b, h) = x, y
    if g != h:
        return False
    if a is None or b is None:
        return a is b
    return a[:3] == b[:3] and len(a[3]) == len(b[3]) and all(p is q for p, q in zip(a[3], b[3]))


def posted_v(helper, variant, n=None, edges=None, shape=None):
    """like posted(), for a non-default call.  Returns (solver, free variables, info) or (None, error, info);
    info: 'active_of' maps a pattern of the free variables to the activity pattern it stands for,
    'args_unchanged' tells whether is_active / graph were left as they were."""
    from cspuz import Solver
    from cspuz import graph as G
    from cspuz.array import BoolArray1D, BoolArray2D
    f = G.active_vertices_not_adjacent if helper == "NA" else G.active_vertices_not_adjacent_and_not_segmenting
    form = variant.get("form", "array")
    consts = {int(k): b for k, b in variant.get("consts", {}).items()} if form == "list-consts" else {}
    s = Solver()
    invert = False
    if shape is not None:
        h, w = shape
        nn = h * w
        base = s.bool_array(shape)
        free = list(base.data)
        if form == "neg":
            arg, invert = ~base, True
        elif form == "array2d-from-iter":
            arg = BoolArray2D(iter(list(base.data)), (int(str(h)), int(str(w))))
        elif form == "array2d-from-rows-gen":
            arg = BoolArray2D((x for x in row) for row in [free[y * w:(y + 1) * w] for y in range(h)]) if h and w else base
        else:
            arg = base
        g = None
    else:
        nn = n
        base = s.bool_array(n)
        free = [v for i, v in enumerate(base.data) if i not in consts]
        if form == "neg":
            arg, invert = ~base, True
        elif form == "array-from-gen":
            arg = BoolArray1D(v for v in base.data)
        elif form == "array-from-map":
            arg = BoolArray1D(map(lambda v: v, reversed(list(reversed(base.data)))))
        elif form == "list":
            arg = list(base.data)
        elif form == "tuple":
            arg = tuple(base.data)
        elif form == "list-consts":
            arg = [consts[i] if i in consts else v for i, v in enumerate(base.data)]
        elif form == "generator":
            arg = (v for v in base.data)
        else:
            arg = base
        k = variant.get("incremental")
        g = graphcap.mk_graph(n, edges if k is None else edges[:k])
        if k is not None:
            # history: the same Graph object was used for an earlier call, then extended
            s0 = Solver()
            vlib.guarded(f, s0, s0.bool_array(n), g)
            for (a, b) in edges[k:]:
                g.add_edge(a, b)
    kw = variant.get("kw", "pos")

    def call():
        if kw == "all-kw":
            return vlib.guarded(f, solver=s, is_active=arg, graph=g)
        if kw == "graph-kw":
            return vlib.guarded(f, s, arg, graph=g)
        return vlib.guarded(f, s, arg) if g is None else vlib.guarded(f, s, arg, g)
    before = snapshot(arg, g)
    r = call()
    if r[0] == "ok" and variant.get("twice"):
        r = call()
    info = {"args_unchanged": same_snapshot(before, snapshot(arg, g)), "n": nn}

    def active_of(sub):
        it = iter(sub)
        full = [consts[i] if i in consts else next(it) for i in range(nn)]
        return tuple((not b) if invert else b for b in full)
    info["active_of"] = active_of
    if r[0] == "err":
        return None, r[1], info
    return s, free, info


def check_variant(ctx, what, key_prefix, helper, variant, want_fn, detail, n=None, edges=None, shape=None):
    """the accepted set of a non-default call against the oracle (want_fn over full activity patterns)"""
    tag = variant_tag(variant)
    ctx.count("h:variant-form:" + variant.get("form", "array"))
    ctx.count("h:variant-kw:" + variant.get("kw", "pos"))
    ctx.count("h:variant-history:" + ("twice" if variant.get("twice") else "incremental" if "incremental" in variant else "once"))
    s, free, info = posted_v(helper, variant, n=n, edges=edges, shape=shape)
    d = dict(detail)
    d["variant"] = variant
    key_prefix = "%s[%s]" % (key_prefix, tag)
    if not info["args_unchanged"]:
        ctx.violation(key_prefix + ":args-mutated", what + ": the call changed its is_active / graph argument", d)
    if s is None:
        if variant.get("form") == "generator" and free == "TypeError":
            # a one-shot iterable is outside the documented Sequence type: rejecting it is fine,
            # accepting it with a different meaning is not
            ctx.count("h:generator-argument-rejected")
            return
        d["error"] = free
        ctx.violation(key_prefix + ":raises", what + ": helper raised on a valid call", d)
        return
    _, acc = accepted_set(s, free)
    bad = 0
    for sub in graphcap.patterns(len(free)):
        act = info["active_of"](sub)
        ctx.prop_case(what, (key_prefix, bits(sub)))
        exp, obs = want_fn(act), sub in acc
        if exp != obs:
            bad += 1
            d2 = dict(d)
            d2.update({"pattern": bits(act), "free_pattern": bits(sub), "expected_accept": exp, "observed_accept": obs})
            ctx.violation("%s:p=%s" % (key_prefix, bits(act)), what + ": accepted patterns differ from the graph definition", d2)
            if bad >= 3:
                break


def accepted_set(s, avars):
    p = Z3Prog(s)
    out = {}
    for pat, model in p.accepted(avars):
        out[pat] = model
    return p, out


def search_graphs(ctx):
    rng = ctx.rng
    seen = set()

    def emit(n, es):
        k = (n, tuple(es))
        if k not in seen:
            seen.add(k)
            return True
        return False
    for n, es in graphcap.all_multigraphs(4, 5 if (ctx.thorough or ctx.deep) else 4, loops=True):
        if emit(n, es):
            yield n, es
    # 5 vertices: every simple graph
    pairs = [(a, b) for a in range(5) for b in range(a + 1, 5)]
    for mk in range(1 << len(pairs)):
        es = [pairs[i] for i in range(len(pairs)) if mk >> i & 1]
        if emit(5, es):
            yield 5, es
    for _ in range(200 if ctx.thorough else 25):
        n, es = graphcap.random_multigraph(rng, 6 if ctx.thorough else 5, loops=True)
        if emit(n, es):
            yield n, es


def search_graph_forms(ctx):
    """(label, n, edges, also validate the Coq spec): graph input forms and sizes beyond the exhaustive scope"""
    import c08pat
    rng = ctx.rng
    deep = ctx.thorough or ctx.deep
    seen = set()

    def fresh(n, es):
        k = (n, tuple(es))
        if k in seen:
            return False
        seen.add(k)
        return True
    # every small multigraph (loops included) with all edges stored as (larger, smaller), and with mixed orientation
    for n, es in graphcap.all_multigraphs(4 if deep else 3, 4 if deep else 3, loops=True):
        if not es:
            continue
        rev = [(b, a) for (a, b) in es]
        if rev != es and fresh(n, rev):
            yield "small-reversed", n, rev, False
        if len(es) >= 2 and rng.random() < 0.5:
            mixed = shuffled(rng, es)
            if fresh(n, mixed):
                yield "small-mixed-shuffled", n, mixed, False
    # cycles closed by a reversed edge, a loop inside a cycle, 4 vertices
    for k in (3, 4, 5, 6):
        es = [(i, i + 1) for i in range(k - 1)] + [(k - 1, 0)]
        yield "cycle-closed-by-reversed-edge", k, es, True
        yield "cycle-with-loop", k, es[:1] + [(k // 2, k // 2)] + es[1:], True
    for name, n, es in c08pat.structured_graphs():
        if n > (10 if deep else 9) and name != "petersen":
            continue
        forms = c08pat.edge_forms(n, es, rng)
        picks = forms if deep else [forms[0]] + rng.sample(forms[1:], 2)
        for ftag, fes in picks:
            if fresh(n, fes):
                yield "structured:" + ftag, n, fes, ftag == "as-is" and n <= 8


def compare_sets(ctx, what, key_prefix, n, got, want_fn, detail):
    """got: set of accepted patterns; want_fn(pattern) -> bool over all 2^n patterns"""
    bad = 0
    for pat in graphcap.patterns(n):
        ctx.prop_case(what, (key_prefix, bits(pat)), nontrivial=True)
        exp = want_fn(pat)
        obs = pat in got
        if exp != obs:
            bad += 1
            d = dict(detail)
            d.update({"pattern": bits(pat), "expected_accept": exp, "observed_accept": obs})
            ctx.violation("%s:p=%s" % (key_prefix, bits(pat)), what + ": accepted patterns differ from the graph definition", d)
            if bad >= 3:
                break


def search(ctx):
    n_mis = len(ctx.mismatches)
    search_body(ctx)
    if len(ctx.mismatches) > n_mis:
        # cross-checks of the Coq specification / certificate / rank construction against the oracles and the
        # real program are part of the tie: a failure there must not pass silently
        raise AssertionError("specification / certificate cross-checks failed: %r" % (ctx.mismatches[n_mis:n_mis + 3],))


BIG_SHAPES = [(4, 5), (5, 4), (5, 5), (6, 6), (7, 7), (3, 7), (7, 3), (2, 8), (4, 4)]
BIG_SHAPES_THOROUGH = [(4, 6), (6, 4), (5, 6), (6, 5), (6, 7), (7, 6), (8, 8), (2, 11), (11, 2)]
BIG_SHAPES_CHAINS = [(8, 8), (9, 9), (7, 10), (11, 11)]
BIG_SHAPES_CHAINS_THOROUGH = [(10, 10), (9, 12), (12, 9), (13, 13)]


def family(tag):
    return "".join(c for c in tag if not c.isdigit())


def search_big_boards(ctx, m, spec_reqs, spec_meta):
    """grid form vs explicit-graph form vs the oracle on X shapes, 3-4-armed stars, maximal diagonal chains
    (hanging from the border, free, joining two border cells), zig-zags, rings, checkerboards and random
    diagonal-rich patterns of boards with 16..49 cells (thorough: up to 81).  z3 decides the really posted
    programs pattern by pattern; refuting the explicit-graph form (rank descent in a rootless component) is
    slow for z3 on 36+ cells, so there those checks run with a short timeout and 'unknown' is counted as
    inconclusive (never as accept or reject)."""
    import c08pat
    from cspuz.expr import IntVar
    deep = ctx.thorough or ctx.deep
    shapes = [(h, w, True) for (h, w) in BIG_SHAPES + (BIG_SHAPES_THOROUGH if deep else [])]
    # still larger boards: grid form only, mostly the maximal chains (what the rank range has to accommodate)
    shapes += [(h, w, False) for (h, w) in BIG_SHAPES_CHAINS + (BIG_SHAPES_CHAINS_THOROUGH if deep else [])
               if (h, w, True) not in shapes]
    for (h, w, full) in shapes:
        n = h * w
        es = graphcap.grid_edges(h, w)
        gk = "%dx%d" % (h, w)
        if full:
            pats = c08pat.board_patterns(h, w, ctx.rng, n_random=40 if ctx.thorough else 16,
                                         star_cap=60 if ctx.thorough else 24)
        else:
            pats = [(t, c) for (t, c) in c08pat.board_patterns(h, w, ctx.rng, n_random=6, star_cap=12)
                    if t.startswith(("chain", "ring", "star", "random", "checker", "staircase"))]
        progs = {}
        for name, helper, kw in (("NA-grid", "NA", {"shape": (h, w)}), ("NS-grid", "NS", {"shape": (h, w)}),
                                 ("NS-gridgraph", "NS", {"n": n, "edges": es})):
            if name == "NS-gridgraph" and not full:
                continue
            s, av = posted(helper, **kw)
            if s is None:
                ctx.violation("%s:%s:raises" % (name, gk), "helper raised on a valid grid", {"shape": [h, w], "error": av})
            else:
                progs[name] = (s, av, Z3Prog(s))
        inconclusive = seg_done = 0
        fam_seen = {}
        cd_reqs, rk_reqs, rk_pats = [], [], []
        for tag, cells in pats:
            pat = c08pat.to_bits(h, w, cells)
            ind = oracle_independent(es, pat)
            ns = ind and graphcap.is_connected(n, es, [not a for a in pat])
            ctx.count("h:big:" + family(tag))
            ctx.count("h:big-board:" + gk)
            fam_seen[family(tag)] = fam_seen.get(family(tag), 0) + 1
            obs = {}
            for name, exp in (("NA-grid", ind), ("NS-grid", ns), ("NS-gridgraph", ns)):
                if name not in progs:
                    continue
                s, av, prog = progs[name]
                tmo = None
                if name == "NS-gridgraph" and n > 16:
                    if n > 25 and not ctx.thorough and fam_seen[family(tag)] > 3:
                        continue  # z3 on the 36+-vertex rank encoding is slow: a few patterns of each family
                    if ind and not ns:
                        # refutation of the rank encoding: sampled, short timeout
                        if seg_done >= (40 if ctx.thorough else 8):
                            continue
                        seg_done += 1
                        tmo = 1500 if ctx.thorough else 250
                    else:
                        if inconclusive >= 25:
                            continue
                        tmo = 4000 if ctx.thorough else 1500
                r, model = prog.check(list(zip(av, pat)), want_model=True, timeout_ms=tmo)
                if r is None:
                    inconclusive += 1
                    ctx.count("h:big:graph-form-inconclusive(z3 timeout)")
                    continue
                obs[name] = r
                ctx.prop_case(name + "-big", (gk, bits(pat)))
                if r != exp:
                    d = {"helper": name[:2], "shape": [h, w], "pattern": bits(pat), "family": tag,
                         "active_cells": sorted(cells), "expected_accept": exp, "observed_accept": r}
                    if name == "NS-gridgraph":
                        d["route"] = "explicit graph"
                    ctx.violation("%s:%s:p=%s" % (name, gk, bits(pat)),
                                  name + ": accepted patterns differ from the graph definition", d)
                if name == "NS-grid" and r and m is not None and h >= 2 and w >= 2:
                    rank_vars = [v for v in s.variables if isinstance(v, IntVar)]
                    cd_reqs.append("CD %d %d B %s R %s" % (h, w, " ".join(bits(pat)), " ".join(str(model[v.id]) for v in rank_vars)))
            if "NS-grid" in obs and "NS-gridgraph" in obs and obs["NS-grid"] != obs["NS-gridgraph"]:
                ctx.violation("NS-grid-vs-graph:%s:p=%s" % (gk, bits(pat)),
                              "grid encoding and explicit-graph encoding accept different patterns",
                              {"shape": [h, w], "pattern": bits(pat), "family": tag, "active_cells": sorted(cells),
                               "grid_accepts": obs["NS-grid"], "graph_accepts": obs["NS-gridgraph"]})
            if m is not None:
                if n <= 81 or ctx.thorough:
                    spec_reqs.append("SP %d %d B %s" % (h, w, " ".join(bits(pat))))
                    spec_meta.append(("grid", (h, w), es, pat))
                if ns and h >= 2 and w >= 2:
                    rk_reqs.append("RK %d %d B %s" % (h, w, " ".join(bits(pat))))
                    rk_pats.append(pat)
        if m is not None and "NS-grid" in progs:
            s, av, prog = progs["NS-grid"]
            rank_vars = [v for v in s.variables if isinstance(v, IntVar)]
            outs = m.batch(cd_reqs + rk_reqs)
            for i, rq in enumerate(cd_reqs):
                ctx.corr("z3-model-vs-cert_diag", (h, w, rq), outs[i], "1")
            for i, pat in enumerate(rk_pats):
                ranks = [int(x) for x in outs[len(cd_reqs) + i].split()]
                ok = len(ranks) == len(rank_vars) and prog.check(list(zip(av, pat)) + list(zip(rank_vars, ranks)))
                ctx.corr("diag_rank-on-real-program", (h, w, bits(pat)), True, bool(ok))


def search_body(ctx):
    m = None
    try:
        m = ctx.model("C08")
    except Exception as ex:  # model build broken: the oracle comparison still runs
        ctx.note("model unavailable in search: %r" % (ex,))
    spec_reqs, spec_meta = [], []

    # ---- explicit graphs
    def one_graph(n, es, variant_p, want_spec=True):
        gk = "n=%d:e=%s" % (n, ",".join("%d-%d" % e for e in es))
        for helper, oracle in (("NA", lambda p: oracle_independent(es, p)),
                               ("NS", lambda p: oracle_not_segmenting(n, es, p))):
            s, av = posted(helper, n=n, edges=es)
            if s is None:
                ctx.violation("%s-graph:%s:raises" % (helper, gk), "helper raised on a valid graph", {"n": n, "edges": es, "error": av})
                continue
            _, acc = accepted_set(s, av)
            compare_sets(ctx, "%s-graph" % helper, "%s-graph:%s" % (helper, gk), n, set(acc), oracle,
                         {"helper": helper, "n": n, "edges": es})
            if ctx.rng.random() < variant_p:
                check_variant(ctx, "%s-graph-variant" % helper, "%s-graph:%s" % (helper, gk), helper,
                              random_variant(ctx.rng, helper, False, n, len(es)), oracle,
                              {"helper": helper, "n": n, "edges": es}, n=n, edges=es)
        if m is not None and want_spec:
            for pat in graphcap.patterns(n):
                spec_reqs.append("SG %s B %s" % (graphcap.graph_tok(n, es), " ".join(bits(pat))))
                spec_meta.append(("graph", n, es, pat))

    for n, es in search_graphs(ctx):
        one_graph(n, es, 0.5 if (ctx.thorough or ctx.deep) else 0.15)
    # class 4 / 5: reversed, mixed, parallel-reversed edges and self-loops; structured graphs with 5..10 vertices
    for label, n, es, want_spec in search_graph_forms(ctx):
        ctx.count("h:graph-form:" + label)
        one_graph(n, es, 0.3, want_spec)

    # ---- Python constants as is_active (direct evaluation of what is posted)
    from cspuz import Solver
    from cspuz import graph as G
    for n, es in itertools.chain(graphcap.all_multigraphs(3, 3, loops=True), [(4, graphcap.grid_edges(2, 2))]):
        for pat in graphcap.patterns(n):
            s = Solver()
            r = vlib.guarded(G.active_vertices_not_adjacent, s, list(pat), graphcap.mk_graph(n, es))
            exp = oracle_independent(es, pat)
            ctx.prop_case("NA-const", (n, tuple(es), bits(pat)))
            if r[0] == "err":
                obs = "raises " + r[1]
            elif all(isinstance(c, bool) for c in s.constraints):
                obs = all(s.constraints)
            else:
                obs = "non-constant constraints"
            if obs != exp:
                ctx.violation("NA-const:n=%d:e=%s:p=%s" % (n, ",".join("%d-%d" % e for e in es), bits(pat)),
                              "not_adjacent with Python-bool is_active: not satisfied exactly when no edge has two active endpoints",
                              {"n": n, "edges": es, "pattern": bits(pat), "expected": exp, "observed": obs})

    # ---- grids
    maxc = 16 if ctx.thorough else 12
    for (h, w) in graphcap.grid_shapes(maxc):
        n = h * w
        es = graphcap.grid_edges(h, w)
        gk = "%dx%d" % (h, w)
        want = {}
        for pat in graphcap.patterns(n):
            want[pat] = (oracle_independent(es, pat), oracle_not_segmenting(n, es, pat))
        # not_adjacent: grid form
        s, av = posted("NA", shape=(h, w))
        if s is None:
            ctx.violation("NA-grid:%s:raises" % gk, "helper raised on a valid grid", {"shape": [h, w], "error": av})
        else:
            _, acc = accepted_set(s, av)
            compare_sets(ctx, "NA-grid", "NA-grid:" + gk, n, set(acc), lambda p: want[p][0], {"helper": "NA", "shape": [h, w]})
        # not_segmenting: grid form, and explicit-graph form on the same grid
        s, av = posted("NS", shape=(h, w))
        acc_grid = None
        if s is None:
            ctx.violation("NS-grid:%s:raises" % gk, "helper raised on a valid grid", {"shape": [h, w], "error": av})
        else:
            prog, acc_grid = accepted_set(s, av)
            compare_sets(ctx, "NS-grid", "NS-grid:" + gk, n, set(acc_grid), lambda p: want[p][1], {"helper": "NS", "shape": [h, w]})
        s2, av2 = posted("NS", n=n, edges=es)
        if s2 is None:
            ctx.violation("NS-gridgraph:%s:raises" % gk, "helper raised on a valid graph", {"shape": [h, w], "error": av2})
        else:
            _, acc_graph = accepted_set(s2, av2)
            compare_sets(ctx, "NS-grid-as-graph", "NS-gridgraph:" + gk, n, set(acc_graph), lambda p: want[p][1],
                         {"helper": "NS", "shape": [h, w], "route": "explicit graph"})
            if n <= 9 or ctx.rng.random() < (0.6 if (ctx.thorough or ctx.deep) else 0.25):
                for helper, kind, idx in (("NA", "NA-grid", 0), ("NS", "NS-grid", 1)):
                    if n <= 12 or helper == "NA" or ctx.rng.random() < 0.5:
                        check_variant(ctx, kind + "-variant", kind + ":" + gk, helper,
                                      random_variant(ctx.rng, helper, True, n, len(es)), lambda p, i=idx: want[p][i],
                                      {"helper": helper, "shape": [h, w]}, shape=(h, w))
            if acc_grid is not None and set(acc_grid) != set(acc_graph):
                diff = sorted(set(acc_grid) ^ set(acc_graph))[0]
                ctx.violation("NS-grid-vs-graph:%s:p=%s" % (gk, bits(diff)),
                              "grid encoding and explicit-graph encoding accept different patterns",
                              {"shape": [h, w], "pattern": bits(diff), "grid_accepts": diff in acc_grid,
                               "graph_accepts": diff in acc_graph})
        if m is not None:
            small = n <= (12 if ctx.thorough else 9)
            for pat in graphcap.patterns(n):
                if small or want[pat][0]:
                    spec_reqs.append("SP %d %d B %s" % (h, w, " ".join(bits(pat))))
                    spec_meta.append(("grid", (h, w), es, pat))
            # z3's rank models against the Coq certificate checker; Coq's rank construction on the real program
            if acc_grid is not None and h >= 2 and w >= 2:
                from cspuz.expr import IntVar
                rank_vars = [v for v in s.variables if isinstance(v, IntVar)]
                cd_reqs, rk_reqs, pats = [], [], []
                for pat, model in list(acc_grid.items())[: (400 if ctx.thorough else 60)]:
                    cd_reqs.append("CD %d %d B %s R %s" % (h, w, " ".join(bits(pat)), " ".join(str(model[v.id]) for v in rank_vars)))
                    rk_reqs.append("RK %d %d B %s" % (h, w, " ".join(bits(pat))))
                    pats.append(pat)
                outs = m.batch(cd_reqs + rk_reqs)
                for i, pat in enumerate(pats):
                    ctx.corr("z3-model-vs-cert_diag", (h, w, bits(pat)), outs[i], "1")
                    ranks = [int(x) for x in outs[len(pats) + i].split()]
                    ok = len(ranks) == len(rank_vars) and prog.check(list(zip(av, pat)) + list(zip(rank_vars, ranks)))
                    ctx.corr("diag_rank-on-real-program", (h, w, bits(pat)), True, bool(ok))

    # ---- class 5: targeted patterns on boards beyond the exhaustive scope
    search_big_boards(ctx, m, spec_reqs, spec_meta)

    # ---- the Coq specifications against the oracles
    if m is not None and spec_reqs:
        outs = m.batch(spec_reqs)
        for (kind, g, es, pat), o in zip(spec_meta, outs):
            t = o.split()
            n = g if kind == "graph" else g[0] * g[1]
            ind = oracle_independent(es, pat)
            con = graphcap.is_connected(n, es, [not a for a in pat])
            if kind == "graph":
                ctx.corr("spec-vs-oracle:graph", (g, tuple(es), bits(pat)), (t[0] == "1", t[1] == "1"), (ind, con))
            else:
                ctx.corr("spec-vs-oracle:grid", (g, bits(pat)), (t[0] == "1", t[1] == "1"), (ind, con))
                if ind and g[0] >= 2 and g[1] >= 2:
                    # diag_equiv beyond the kernel-checked bound: forest condition == complement connected
                    ctx.corr("diag-equiv", (g, bits(pat)), t[2] == "1", con)


def replay(ctx, rp):
    print(rp)
    v = rp.get("violation", {}).get("detail", {})
    if not v or "pattern" not in v:
        return 0
    pat = tuple(c == "1" for c in v["pattern"])
    from cspuz import Solver
    from cspuz import graph as G
    if "observed" in v:  # constant patterns
        s = Solver()
        r = vlib.guarded(G.active_vertices_not_adjacent, s, list(pat), graphcap.mk_graph(v["n"], [tuple(e) for e in v["edges"]]))
        print("now:", r, s.constraints)
        ok = r[0] == "ok" and all(isinstance(c, bool) for c in s.constraints) and all(s.constraints) == v["expected"]
        return 0 if ok else 1
    helper = v.get("helper", "NS")
    if "variant" in v:  # a non-default call form / history
        if "shape" in v:
            h, w = v["shape"]
            n, es = h * w, graphcap.grid_edges(h, w)
            s, free, info = posted_v(helper, v["variant"], shape=(h, w))
        else:
            n, es = v["n"], [tuple(e) for e in v["edges"]]
            s, free, info = posted_v(helper, v["variant"], n=n, edges=es)
        print("arguments unchanged:", info["args_unchanged"])
        if s is None:
            print("raises", free)
            return 1
        if "free_pattern" not in v:
            return 0 if info["args_unchanged"] else 1
        sub = tuple(c == "1" for c in v["free_pattern"])
        obs = Z3Prog(s).check(list(zip(free, sub)))
        act = info["active_of"](sub)
        exp = oracle_independent(es, act) if helper == "NA" else oracle_not_segmenting(n, es, act)
        print("expected accept:", exp, " observed accept:", obs)
        return 0 if obs == exp and info["args_unchanged"] else 1
    if "shape" in v and v.get("route") != "explicit graph":
        h, w = v["shape"]
        s, av = posted(helper, shape=(h, w))
        n, es = h * w, graphcap.grid_edges(h, w)
    else:
        if "shape" in v:
            h, w = v["shape"]
            n, es = h * w, graphcap.grid_edges(h, w)
        else:
            n, es = v["n"], [tuple(e) for e in v["edges"]]
        s, av = posted(helper, n=n, edges=es)
    if s is None:
        print("raises", av)
        return 1
    obs = Z3Prog(s).check(list(zip(av, pat)))
    exp = oracle_independent(es, pat) if helper == "NA" else oracle_not_segmenting(n, es, pat)
    print("expected accept:", exp, " observed accept:", obs)
    return 0 if obs == exp else 1
