"""Shared machinery of the /verif checks (see DESIGN.md section 1).

A property module harness/pCxx.py exposes

    PROPS      = "Props/C13.v"            # file holding only the property theorems
    EXTRACT    = "C13"                    # directory under coq/extract (or None)
    def translate(ctx)                    # optional: regenerate coq/theories/Gen/*.v from /repo
    def correspond(ctx)                   # model (extracted) vs implementation, ctx.corr(...)
    def search(ctx)                       # property-level oracle vs implementation, ctx.violation(...)

and check.py drives them.  Everything random derives from ctx.rng (seeded by
VERIF_SEED).
"""
import fcntl
import hashlib
import json
import os
import random
import re
import subprocess
import sys
import time

ROOT = os.path.dirname(os.path.dirname(os.path.abspath(__file__)))
COQ = os.path.join(ROOT, "coq")
THEORIES = os.path.join(COQ, "theories")
GEN = os.path.join(THEORIES, "Gen")
EXTRACT = os.path.join(COQ, "extract")
REPO = os.environ.get("VERIF_REPO", "/repo")
# evidence/ only ever holds what a full check wrote against /repo itself; runs against a scratch tree
# (VERIF_REPO, seeded-change tests) or restricted runs (C11_ONLY) write under work/ (git-ignored)
_SCRATCH_RUN = REPO != "/repo" or bool(os.environ.get("C11_ONLY")) or bool(os.environ.get("VERIF_SCRATCH"))
EVIDENCE = os.path.join(ROOT, "work", "evidence_scratch") if _SCRATCH_RUN else os.path.join(ROOT, "evidence")
REPLAYS = os.path.join(ROOT, "replays")
KNOWN = os.path.join(ROOT, "KNOWN_FINDINGS.txt")

FORBIDDEN = re.compile(
    r"\b(Admitted|admit|Axiom|Axioms|Parameter|Parameters|Conjecture|Conjectures|Admit Obligations)\b"
    r"|Unset\s+Guard|Unset\s+Positivity|Unset\s+Universe|bypass_check|type-in-type|impredicative-set|native_compute"
)

TRUSTED_BASE_COMMON = [
    "Coq 8.16.1 kernel (coqc) incl. its vm_compute machine; no native_compute",
    "no axioms declared by the development; Print Assumptions of every property theorem must be 'Closed under the global context'",
    "extraction: ExtrOcamlBasic only (bool/option/unit/list/prod/sumbool/sumor directives), no Extract Constant; OCaml 4.13.1; hand-written driver.ml (I/O only)",
    "correspondence harness (harness/*.py) running /repo's Python under /venv/bin/python with PYTHONPATH=/repo PYTHONHASHSEED=0",
]


class Lock:
    """process-wide (flock) build lock; re-entrant within one process"""
    _depth = 0
    _file = None

    def __init__(self, name="build"):
        self.path = os.path.join(ROOT, ".lock")

    def __enter__(self):
        if Lock._depth == 0:
            Lock._file = open(self.path, "w")
            fcntl.flock(Lock._file, fcntl.LOCK_EX)
        Lock._depth += 1
        return self

    def __exit__(self, *a):
        Lock._depth -= 1
        if Lock._depth == 0:
            fcntl.flock(Lock._file, fcntl.LOCK_UN)
            Lock._file.close()
            Lock._file = None


def sh(cmd, cwd=None, timeout=1800, env=None):
    e = dict(os.environ)
    if env:
        e.update(env)
    try:
        p = subprocess.run(
            cmd, cwd=cwd, shell=isinstance(cmd, str), stdout=subprocess.PIPE, stderr=subprocess.STDOUT,
            timeout=timeout, env=e, text=True, errors="replace",
        )
        return p.returncode, p.stdout
    except subprocess.TimeoutExpired as ex:
        out = ex.stdout or ""
        if isinstance(out, bytes):
            out = out.decode("utf8", "replace")
        return 124, out + "\n[timeout after %ss]" % timeout


def write_if_changed(path, text):
    os.makedirs(os.path.dirname(path), exist_ok=True)
    try:
        with open(path) as f:
            if f.read() == text:
                return False
    except FileNotFoundError:
        pass
    with open(path, "w") as f:
        f.write(text)
    return True


# ---------------------------------------------------------------- Coq build

def all_v_files():
    out = []
    for d, _, fs in os.walk(THEORIES):
        for f in sorted(fs):
            if f.endswith(".v"):
                out.append(os.path.relpath(os.path.join(d, f), COQ))
    return sorted(out)


def _strip_comments(txt):
    prev = None
    while prev != txt:
        prev = txt
        txt = re.sub(r"\(\*(?:(?!\(\*|\*\)).)*?\*\)", " ", txt, flags=re.S)
    return txt


def scan_forbidden(props_rel=None, extract=None):
    """grep the development for anything that declares an axiom or switches a kernel
    check off.  With props_rel: the transitive closure of Props/Cxx.v (what the
    property's theorems rest on) plus the property's Extract.v; without: every .v file."""
    files = []
    if props_rel is None:
        for base in (THEORIES, EXTRACT):
            for d, _, fs in os.walk(base):
                files += [os.path.join(d, f) for f in fs if f.endswith(".v")]
    else:
        files = [os.path.join(COQ, f) for f in coq_deps_of("theories/" + props_rel)]
        if extract:
            ev = os.path.join(EXTRACT, extract, "Extract.v")
            if os.path.exists(ev):
                files.append(ev)
    hits = []
    for p in sorted(set(files)):
        try:
            with open(p, errors="replace") as fh:
                txt = _strip_comments(fh.read())
        except FileNotFoundError:
            continue
        for i, line in enumerate(txt.split("\n"), 1):
            if FORBIDDEN.search(line):
                hits.append("%s:%d: %s" % (os.path.relpath(p, ROOT), i, line.strip()[:120]))
    return hits


def ensure_makefile():
    files = all_v_files()
    proj = "-Q theories Cspuz\n-arg -w -arg -notation-overridden,-deprecated-hint-without-locality,-deprecated-instance-without-locality\n" + "\n".join(files) + "\n"
    changed = write_if_changed(os.path.join(COQ, "_CoqProject"), proj)
    if changed or not os.path.exists(os.path.join(COQ, "Makefile")):
        rc, out = sh("coq_makefile -f _CoqProject -o Makefile", cwd=COQ, timeout=120)
        if rc != 0:
            raise RuntimeError("coq_makefile failed:\n" + out)


def coq_make(targets, jobs=16, timeout=3000):
    """Full .vo build (no -vos) of the given targets (paths relative to coq/)."""
    ensure_makefile()
    if not targets:
        return 0, "(no targets)"
    tg = " ".join(targets)
    rc, out = sh("timeout %d make -k -j%d %s" % (timeout, jobs, tg), cwd=COQ, timeout=timeout + 30)
    return rc, out


def check_props(props_rel):
    """Build Props/Cxx.vo (and its closure), then re-run coqc on it to capture
    Print Assumptions.  Returns dict(ok, theorems, closed, open, log)."""
    vo = "theories/" + props_rel[:-2] + ".vo"
    res = {"ok": False, "theorems": [], "closed": [], "open": {}, "log": "", "file": props_rel}
    src = os.path.join(THEORIES, props_rel)
    with open(src) as f:
        text = f.read()
    thms = re.findall(r"^\s*(?:Theorem|Corollary)\s+([A-Za-z0-9_']+)", text, flags=re.M)
    pa = re.findall(r"^\s*Print Assumptions\s+([A-Za-z0-9_']+)\s*\.", text, flags=re.M)
    res["theorems"] = thms
    missing = [t for t in thms if t not in pa]
    with Lock():
        rc, out = coq_make([vo])
        if rc != 0:
            res["log"] = out[-6000:]
            res["failed_stage"] = "make " + vo
            return res
        rc, out = sh("timeout 600 coqc -q -Q theories Cspuz -w -notation-overridden theories/%s" % props_rel, cwd=COQ, timeout=630)
    if rc != 0:
        res["log"] = out[-6000:]
        res["failed_stage"] = "coqc " + props_rel
        return res
    # split output per Print Assumptions, in order
    chunks = re.split(r"(?=Closed under the global context|Axioms:)", out)
    chunks = [c for c in chunks if c.startswith("Closed under") or c.startswith("Axioms:")]
    if len(chunks) != len(pa):
        res["log"] = "Print Assumptions output count %d != %d\n%s" % (len(chunks), len(pa), out[-3000:])
        res["failed_stage"] = "assumptions"
        return res
    for name, c in zip(pa, chunks):
        if c.startswith("Closed under"):
            res["closed"].append(name)
        else:
            res["open"][name] = c.strip().split("\n")[1:]
    res["ok"] = not res["open"] and not missing and len(thms) > 0
    if missing:
        res["log"] = "theorems without Print Assumptions: %s" % missing
        res["failed_stage"] = "assumptions"
    if res["open"]:
        res["failed_stage"] = "assumptions"
        res["log"] = json.dumps(res["open"])
    return res


# ---------------------------------------------------------------- extraction

def _hash_files(paths):
    h = hashlib.sha256()
    for p in sorted(paths):
        h.update(p.encode())
        with open(p, "rb") as f:
            h.update(f.read())
    return h.hexdigest()


_DIRECT_DEPS = {}     # (file, mtime) -> direct .v dependencies, per process


def _direct_deps(v):
    try:
        key = (v, os.path.getmtime(os.path.join(COQ, v)))
    except OSError:
        key = (v, None)
    if key not in _DIRECT_DEPS:
        rc, out = sh("coqdep -Q theories Cspuz %s" % v, cwd=COQ, timeout=60)
        deps = []
        m = re.search(r"\.vo[^:]*:\s*(.*)", out, flags=re.S)
        if m:
            for tok in m.group(1).split():
                if tok.endswith(".vo") and tok.startswith("theories/"):
                    deps.append(tok[:-1])
        _DIRECT_DEPS[key] = deps
    return _DIRECT_DEPS[key]


def coq_deps_of(vfile_rel):
    """transitive .v dependencies (within theories/) of a .v file, via coqdep (one coqdep call per file and process)."""
    ensure_makefile()
    seen, todo = set(), [vfile_rel]
    while todo:
        v = todo.pop()
        if v in seen:
            continue
        seen.add(v)
        todo += _direct_deps(v)
    return sorted(seen)


def build_runner(name):
    """Extract coq/extract/<name>/Extract.v and link with driver.ml -> runner."""
    d = os.path.join(EXTRACT, name)
    runner = os.path.join(d, "runner")
    with Lock():
        ensure_makefile()
        with open(os.path.join(d, "Extract.v")) as f:
            et = f.read()
        mods = re.findall(r"Cspuz\.([A-Za-z0-9_.]+)", et)
        for m_ in re.finditer(r"From\s+Cspuz\s+Require\s+(?:Import|Export)?\s+([A-Za-z0-9_. \t]+?)\.\s*\n", et + "\n"):
            mods += m_.group(1).split()
        mods = [m.rstrip(".") for m in mods]
        vos, srcs = [], [os.path.join(d, "Extract.v"), os.path.join(d, "driver.ml"), os.path.join(EXTRACT, "zutil.ml")]
        use_exprio = "Exprio." in open(os.path.join(d, "driver.ml")).read()
        extra_ml = ""
        if use_exprio:
            srcs.append(os.path.join(EXTRACT, "exprio.ml"))
            extra_ml = "exprio.ml "
        for f in sorted(os.listdir(d)):
            if f.endswith(".ml") and f not in ("model.ml", "zutil.ml", "exprio.ml", "driver.ml"):
                srcs.append(os.path.join(d, f))
        for m in sorted(set(mods)):
            rel = "theories/" + m.replace(".", "/")
            if os.path.exists(os.path.join(COQ, rel + ".v")):
                vos.append(rel + ".vo")
                for dep in coq_deps_of(rel + ".v"):
                    srcs.append(os.path.join(COQ, dep))
        hsh = _hash_files(sorted(set(srcs)))
        hp = os.path.join(d, ".hash")
        if os.path.exists(runner) and os.path.exists(hp) and open(hp).read() == hsh:
            return runner
        rc, out = coq_make(vos)
        if rc != 0:
            raise RuntimeError("model build failed for %s:\n%s" % (name, out[-4000:]))
        rc, out = sh("timeout 600 coqc -q -Q ../../theories Cspuz -w -extraction-opaque-accessed,-extraction-reserved-identifier Extract.v", cwd=d, timeout=630)
        if rc != 0 or not os.path.exists(os.path.join(d, "model.ml")):
            raise RuntimeError("extraction failed for %s:\n%s" % (name, out[-4000:]))
        rc, out = sh(
            "cp ../zutil.ml zutil.ml && cp ../exprio.ml exprio.ml && "
            "ocamlfind ocamlopt -w -a -package str -linkpkg model.mli model.ml zutil.ml %sdriver.ml -o runner" % extra_ml,
            cwd=d, timeout=600)
        if rc != 0:
            raise RuntimeError("ocaml build failed for %s:\n%s" % (name, out[-4000:]))
        with open(hp, "w") as f:
            f.write(hsh)
    return runner


class Model:
    """Line protocol with an extracted runner: one request line -> one reply line."""

    def __init__(self, name):
        self.path = build_runner(name)
        self.p = subprocess.Popen([self.path], stdin=subprocess.PIPE, stdout=subprocess.PIPE, text=True, bufsize=1)

    def call(self, line):
        self.p.stdin.write(line + "\n")
        self.p.stdin.flush()
        r = self.p.stdout.readline()
        if r == "":
            raise RuntimeError("model runner died on: " + line[:200])
        return r.rstrip("\n")

    def batch(self, lines):
        """send many lines, read as many replies (runner must answer in order)."""
        lines = list(lines)
        if not lines:
            return []
        p = subprocess.run([self.path], input="\n".join(lines) + "\n", stdout=subprocess.PIPE, text=True)
        out = p.stdout.split("\n")
        if out and out[-1] == "":
            out.pop()
        if len(out) != len(lines):
            raise RuntimeError("model runner returned %d lines for %d requests" % (len(out), len(lines)))
        return out

    def close(self):
        try:
            self.p.stdin.close()
            self.p.wait(timeout=5)
        except Exception:
            self.p.kill()


# ---------------------------------------------------------------- python errors

def err_name(ex):
    for cls, nm in ((RecursionError, "RecursionError"), (IndexError, "IndexError"), (KeyError, "KeyError"),
                    (AssertionError, "AssertionError"), (TypeError, "TypeError"), (ValueError, "ValueError"),
                    (NotImplementedError, "NotImplementedError"), (ZeroDivisionError, "ZeroDivisionError"),
                    (AttributeError, "AttributeError"), (OverflowError, "OverflowError")):
        if isinstance(ex, cls):
            return nm
    return "Other:" + type(ex).__name__


def guarded(f, *a, **k):
    try:
        return ("ok", f(*a, **k))
    except BaseException as ex:  # noqa
        if isinstance(ex, (KeyboardInterrupt, SystemExit)):
            raise
        return ("err", err_name(ex))


# ---------------------------------------------------------------- context

class Ctx:
    def __init__(self, pid, tier, seed):
        self.pid, self.tier, self.seed = pid, tier, seed
        self.rng = random.Random(seed)
        self.t0 = time.time()
        self.cases = 0
        self.nontrivial = set()
        self.mismatches = []
        self.violations = []
        self.samples = []
        self.dist = {}
        self.notes = []
        self.exhaustive = None
        self.rule = ""
        self.models = {}

    @property
    def thorough(self):
        return self.tier == "thorough"

    def model(self, name):
        if name not in self.models:
            self.models[name] = Model(name)
        return self.models[name]

    def count(self, key, n=1):
        self.dist[key] = self.dist.get(key, 0) + n

    def corr(self, kind, inp, model_out, impl_out, nontrivial=True):
        """record one correspondence case (model vs implementation)."""
        self.cases += 1
        self.count("corr:" + kind)
        if nontrivial:
            self.nontrivial.add(hashlib.md5(repr((kind, inp)).encode()).digest()[:8])
        if len(self.samples) < 6 and (self.cases % 97 == 1):
            self.samples.append({"kind": kind, "input": _j(inp), "model": _j(model_out), "impl": _j(impl_out)})
        if model_out != impl_out:
            if len(self.mismatches) < 50:
                self.mismatches.append({"kind": kind, "input": _j(inp), "model": _j(model_out), "impl": _j(impl_out)})
            else:
                self.count("mismatch_overflow")
            return False
        return True

    def prop_case(self, kind, inp, nontrivial=True):
        """record one property-level (spec vs implementation) evaluation."""
        self.cases += 1
        self.count("prop:" + kind)
        if nontrivial:
            self.nontrivial.add(hashlib.md5(repr((kind, inp)).encode()).digest()[:8])

    def violation(self, key, what, detail):
        """a concrete input on which the *property* fails on the implementation."""
        for v in self.violations:
            if v["key"] == key:
                return
        if len(self.violations) < 40:
            self.violations.append({"key": key, "what": what, "detail": _j(detail)})

    def note(self, s):
        self.notes.append(s)


def _j(x):
    try:
        json.dumps(x)
        return x
    except Exception:
        return repr(x)


# ---------------------------------------------------------------- known findings

def load_known(pid):
    known, fixed = [], []
    if os.path.exists(KNOWN):
        for line in open(KNOWN):
            line = line.strip()
            if not line or line.startswith("#"):
                continue
            m = re.match(r"known:\s+property=(\S+)\s+key=(\S+)\s+(.*)", line)
            if m and m.group(1) == pid:
                known.append({"key": m.group(2), "what": m.group(3)})
            m = re.match(r"fixed:\s+property=(\S+)\s+(\S+)\s+(.*)", line)
            if m and m.group(1) == pid:
                fixed.append({"commit": m.group(2), "what": m.group(3)})
    return known, fixed


def write_replay(pid, obj):
    os.makedirs(REPLAYS, exist_ok=True)
    s = json.dumps(obj, indent=1, sort_keys=True, default=repr)
    h = hashlib.sha1(s.encode()).hexdigest()[:10]
    p = os.path.join(REPLAYS, "%s-%s.json" % (pid, h))
    with open(p, "w") as f:
        f.write(s + "\n")
    return os.path.relpath(p, ROOT)


def write_evidence(ctx, proof, extra_trusted, assumptions, violations_n, extra_cov=None):
    os.makedirs(EVIDENCE, exist_ok=True)
    cov = {
        "obligations": max(1, len(proof.get("theorems", [])) + proof.get("generated_obligations", 0)),
        "discharged": len(proof.get("closed", [])) + proof.get("generated_discharged", 0),
        "checker_cmd": "make -C coq theories/%s.vo (coqc 8.16.1, full .vo build) && coqc theories/%s (Print Assumptions)" % (proof.get("file", "?")[:-2], proof.get("file", "?")),
        "trusted_base": TRUSTED_BASE_COMMON + list(extra_trusted),
        "theorems": proof.get("theorems", []),
        "theorems_closed_under_global_context": proof.get("closed", []),
        "evaluations": ctx.cases,
        "distinct_nontrivial": len(ctx.nontrivial),
        "rule": ctx.rule,
        "samples": ctx.samples[:6] if ctx.samples else [{"note": "no sample recorded"}],
        "input_distribution": dict(sorted(ctx.dist.items())),
        "correspondence_mismatches": len(ctx.mismatches),
        "notes": ctx.notes,
    }
    if ctx.exhaustive is not None:
        cov["exhaustive"] = bool(ctx.exhaustive)
    if extra_cov:
        cov.update(extra_cov)
    ev = {
        "property_id": ctx.pid,
        "tier": ctx.tier,
        "seed": ctx.seed,
        "level": "proof",
        "coverage": cov,
        "assumptions": list(assumptions),
        "wall_s": round(time.time() - ctx.t0, 2),
        "violations": violations_n,
    }
    with open(os.path.join(EVIDENCE, ctx.pid + ".json"), "w") as f:
        json.dump(ev, f, indent=1, sort_keys=True, default=repr)
        f.write("\n")
