(* C06 runner: I/O only.  Requests (one per line, blank-separated tokens):
     CYC|PATH prim n m a0 b0 ... <state> <exprlist>
     WCYC|WPATH prim (N | G n m a0 b0 ...) (F h w | S | A) <state> <exprlist> [<exprlist>]
     SPEC n m a0 b0 ... bits        -> cycle path visited...
     LG n m a0 b0 ...               -> line graph: n m pairs
     RUN <state> B bits I ints      -> 0/1  *)
open Model
open Zutil

let nat s = nat_of_int (int_of_string s)

let rec take_edges m toks =
  if m = 0 then ([], toks) else
  match toks with
  | a :: b :: r -> let (es, r') = take_edges (m - 1) r in ((nat a, nat b) :: es, r')
  | _ -> failwith "edges"

let parse_graph toks = match toks with
  | n :: m :: r -> let (es, r') = take_edges (int_of_string m) r in ({ nv = nat n; edges = es }, r')
  | _ -> failwith "graph"

let err e = "E " ^ string_of_int (int_of_nat (pyerr_code e))

let show_post = function
  | Err e -> err e
  | Ok (st, p) -> "OK " ^ Exprio.show_state st ^ " | " ^ Exprio.show_expr_list p

let show_wrap = function
  | Err e -> err e
  | Ok (st, P1 l) -> "OK " ^ Exprio.show_state st ^ " | 1 " ^ Exprio.show_expr_list l
  | Ok (st, P2 (h, w, l)) ->
      Printf.sprintf "OK %s | 2 %d %d %s" (Exprio.show_state st) (int_of_nat h) (int_of_nat w) (Exprio.show_expr_list l)

let bits s = List.init (String.length s) (fun i -> s.[i] = '1')

let handle toks = match toks with
  | ("CYC" | "PATH") as k :: prim :: rest ->
      let (g, r) = parse_graph rest in
      let (st, r) = Exprio.parse_state r in
      let (acts, _) = Exprio.parse_expr_list r in
      show_post ((if k = "CYC" then post_cycle else post_path) st acts g (prim = "1"))
  | ("WCYC" | "WPATH") as k :: prim :: rest ->
      let (og, r) = (match rest with
        | "N" :: r -> (None, r)
        | "G" :: r -> let (g, r') = parse_graph r in (Some g, r')
        | _ -> failwith "graph option") in
      let f = if k = "WCYC" then active_edges_single_cycle else active_edges_single_path in
      (match r with
       | "F" :: h :: w :: r ->
           let (st, r) = Exprio.parse_state r in
           let (hor, r) = Exprio.parse_expr_list r in
           let (ver, _) = Exprio.parse_expr_list r in
           show_wrap (f st (AFrame (nat h, nat w, hor, ver)) og (prim = "1"))
       | "S" :: r ->
           let (st, r) = Exprio.parse_state r in
           let (l, _) = Exprio.parse_expr_list r in
           show_wrap (f st (ASeq l) og (prim = "1"))
       | "A" :: r ->
           let (st, r) = Exprio.parse_state r in
           let (l, _) = Exprio.parse_expr_list r in
           show_wrap (f st (AArr l) og (prim = "1"))
       | _ -> failwith "arg kind")
  | "SPEC" :: rest ->
      let (g, r) = parse_graph rest in
      let bs = (match r with [s] -> Array.of_list (bits s) | [] -> [||] | _ -> failwith "bits") in
      let a k = let i = int_of_nat k in i < Array.length bs && bs.(i) in
      let b x = if x then "1" else "0" in
      b (single_cycle_b g a) ^ " " ^ b (single_path_b g a) ^ " " ^
      String.concat "" (List.init (int_of_nat g.nv) (fun v -> b (visited g a (nat_of_int v))))
  | "LG" :: rest ->
      let (g, _) = parse_graph rest in
      let lg = line_graph g in
      Printf.sprintf "%d %d%s" (int_of_nat lg.nv) (List.length lg.edges)
        (String.concat "" (List.map (fun (a, b) -> Printf.sprintf " %d %d" (int_of_nat a) (int_of_nat b)) lg.edges))
  | "RUN" :: rest ->
      let (st, r) = Exprio.parse_state rest in
      (match r with
       | "B" :: r ->
           let rec split acc = function "I" :: r -> (List.rev acc, r) | t :: r -> split (t :: acc) r | [] -> (List.rev acc, []) in
           let (bt, it) = split [] r in
           let bs = List.map (fun t -> t = "1") bt in
           let is = List.map (fun t -> z_of_int (int_of_string t)) it in
           if run_program bs is st then "1" else "0"
       | _ -> failwith "run")
  | _ -> "EXN bad request"

let () = main_loop handle
