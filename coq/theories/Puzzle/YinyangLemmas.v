(* C11 Tier 1 - yinyang: for every board shape and every clue layout, the program posted by solve_yinyang (model
   Yinyang.v: the connectivity helper of property C04 on the grid and on its negation, the two 2x2 constraints, the
   three auxiliary constraints, the clue constraints) has a model reading as [ans] exactly when [ans] obeys
   Rules_yinyang AND the auxiliary constraints (YinyangAux.v::yy_aux):
     yinyang_model_exact          : the exact characterisation
     yinyang_sound                : every model's answer obeys the rules           (no planarity needed)
     yinyang_complete_modulo_aux  : a rule-obeying answer with yy_aux ans = true is the reading of a model
     yinyang_exact_if_aux_implied : the full exactness statement, from the planarity statement *)
From Coq Require Import ZArith List Bool Arith Lia.
From Cspuz Require Import Lib.PyErr Core.Expr Core.Program Core.Build Graph.GraphModel Graph.Avc Graph.AvcProofs Graph.AvcTotal
     Puzzle.PuzzleBase Puzzle.SatAbs Puzzle.ModelBase Puzzle.ModelLemmas Puzzle.CreekProofs
     Puzzle.YinyangCompose Puzzle.Rules_yinyang Puzzle.Yinyang Puzzle.YinyangAux.
Import ListNotations.
Local Open Scope nat_scope.

Notation b2z := PuzzleBase.b2z.

Lemma yy_negb_existsb {A} (f : A -> bool) l : negb (existsb f l) = forallb (fun x => negb (f x)) l.
Proof. induction l as [|a r IH]; simpl; [reflexivity|]. rewrite negb_orb, IH. reflexivity. Qed.

Lemma yy_dims h w (rest : list (list Z)) :
  dim ([Z.of_nat h; Z.of_nat w] :: rest) 0 = h /\ dim ([Z.of_nat h; Z.of_nat w] :: rest) 1 = w.
Proof. unfold dim, zn, getz, sec; simpl. rewrite !Nat2Z.id. split; reflexivity. Qed.

Lemma yy_seq_as_map a n : seq a n = map (fun v => a + v) (seq 0 n).
Proof.
  revert a. induction n as [|n IH]; intros a; simpl; [reflexivity|]. f_equal; [lia|].
  rewrite (IH (S a)), <- seq_shift, map_map. apply map_ext. intros v. lia.
Qed.
(* the cells of a board in row-major order are the vertices 0 .. h*w-1 *)
Lemma yy_cells_cidx h w : map (cidx w) (cells h w) = seq 0 (h * w).
Proof.
  unfold cells. induction h as [|h IH]; [reflexivity|].
  rewrite seq_S, flat_map_app, map_app, IH. simpl flat_map. rewrite app_nil_r, map_map.
  replace (S h * w) with (h * w + w) by lia. rewrite seq_app. f_equal.
  rewrite (yy_seq_as_map (0 + h * w) w). apply map_ext. intros x. unfold cidx; simpl. lia.
Qed.
Lemma forallb_cells_seq_yy h w (f : nat -> bool) :
  forallb (fun c => f (cidx w c)) (cells h w) = forallb f (seq 0 (h * w)).
Proof. rewrite <- yy_cells_cidx, forallb_map. reflexivity. Qed.

(* ---- the border walk stays on the board *)
Lemma yy_circ_in h w c : 1 <= h -> 1 <= w -> In c (yy_circ h w) -> fst c < h /\ snd c < w.
Proof.
  intros Hh Hw. unfold yy_circ. rewrite !in_app_iff, !in_map_iff.
  intros [[y [<- Hy]]|[[x [<- Hx]]|[[y [<- Hy]]|[x [<- Hx]]]]]; cbn [fst snd].
  - apply in_seq in Hy. lia.
  - apply in_seq in Hx. lia.
  - apply in_rev in Hy. apply in_seq in Hy. lia.
  - apply in_rev in Hx. apply in_seq in Hx. lia.
Qed.
Lemma yy_cyc_pairs_in {A} (l : list A) p : In p (yy_cyc_pairs l) -> In (fst p) l /\ In (snd p) l.
Proof.
  destruct l as [|a r]; [intros []|]. unfold yy_cyc_pairs. destruct p as [u v]. intros H. split.
  - apply (in_combine_l _ _ _ _ H).
  - apply in_combine_r in H. cbn [snd]. apply in_app_iff in H. destruct H as [H|[<-|[]]]; [right; exact H|left; reflexivity].
Qed.

Section Sem.
  Variable gsem : op -> list (option value) -> option bool.
  Variable en : env.
  Variable w : nat.
  Let hold := holds gsem en.
  Let lit (c : nat * nat) : bool := eb en (cidx w c).

  Lemma hold_yy_block_or y x :
    hold (yy_block_or w y x) = lit (y, x) || lit (y, S x) || lit (S y, x) || lit (S y, S x).
  Proof.
    unfold hold, holds, yy_block_or, yy_or4, yy_v, lit. simpl.
    destruct (eb en (cidx w (y, x))), (eb en (cidx w (y, S x))), (eb en (cidx w (S y, x))), (eb en (cidx w (S y, S x)));
      reflexivity.
  Qed.
  Lemma hold_yy_block_nand y x :
    hold (yy_block_nand w y x) = negb (lit (y, x) && lit (y, S x) && lit (S y, x) && lit (S y, S x)).
  Proof.
    unfold hold, holds, yy_block_nand, yy_nand4, yy_v, lit. simpl.
    destruct (eb en (cidx w (y, x))), (eb en (cidx w (y, S x))), (eb en (cidx w (S y, x))), (eb en (cidx w (S y, S x)));
      reflexivity.
  Qed.
  Lemma hold_yy_checker1 y x :
    hold (yy_checker1 w y x) = negb (lit (y, x) && lit (S y, S x) && negb (lit (S y, x)) && negb (lit (y, S x))).
  Proof.
    unfold hold, holds, yy_checker1, yy_nand4, yy_nv, yy_v, lit. simpl.
    destruct (eb en (cidx w (y, x))), (eb en (cidx w (y, S x))), (eb en (cidx w (S y, x))), (eb en (cidx w (S y, S x)));
      reflexivity.
  Qed.
  Lemma hold_yy_checker2 y x :
    hold (yy_checker2 w y x) = negb (negb (lit (y, x)) && negb (lit (S y, S x)) && lit (S y, x) && lit (y, S x)).
  Proof.
    unfold hold, holds, yy_checker2, yy_nand4, yy_nv, yy_v, lit. simpl.
    destruct (eb en (cidx w (y, x))), (eb en (cidx w (y, S x))), (eb en (cidx w (S y, x))), (eb en (cidx w (S y, S x)));
      reflexivity.
  Qed.

  Lemma eval_yy_switch_count (ps : list ((nat * nat) * (nat * nat))) :
    eval gsem en (yy_count_true (map (fun p => BNode XOR [yy_v w (fst p); yy_v w (snd p)]) ps)) =
    Some (VI (Z.of_nat (count (fun p => xorb (lit (fst p)) (lit (snd p))) ps))).
  Proof.
    destruct ps as [|p0 r]; [reflexivity|].
    set (l := p0 :: r). assert (Hne : l <> []) by discriminate. clearbody l.
    assert (E : yy_count_true (map (fun p => BNode XOR [yy_v w (fst p); yy_v w (snd p)]) l) =
                INode ADD (map (fun e => INode IF [e; PyInt 1; PyInt 0])
                               (map (fun p => BNode XOR [yy_v w (fst p); yy_v w (snd p)]) l))).
    { destruct l; [contradiction|reflexivity]. }
    rewrite E. cbn [eval]. rewrite !map_map.
    rewrite (map_ext _ (fun p => Some (VI (if xorb (lit (fst p)) (lit (snd p)) then 1 else 0)%Z)))
      by (intros p; unfold lit, yy_v; simpl; destruct (eb en (cidx w (fst p))), (eb en (cidx w (snd p))); reflexivity).
    rewrite <- (map_map (fun p => (if xorb (lit (fst p)) (lit (snd p)) then 1 else 0)%Z) (fun z => Some (VI z))).
    rewrite eval_iop_add_ints by (destruct l; [contradiction|discriminate]).
    f_equal. f_equal. clear. unfold count, zsum.
    induction l as [|b r IH]; [reflexivity|]. cbn [map fold_right filter].
    destruct (xorb (lit (fst b)) (lit (snd b))); cbn [length]; rewrite IH; lia.
  Qed.

  Lemma hold_yy_border h :
    hold (yy_border h w) =
    Nat.leb (count (fun p => xorb (lit (fst p)) (lit (snd p))) (yy_cyc_pairs (yy_circ h w))) 2.
  Proof.
    unfold hold, holds, yy_border. cbn [eval map]. rewrite eval_yy_switch_count. cbn.
    set (c := count _ _).
    destruct (Nat.leb_spec c 2) as [L|L].
    - replace (Z.of_nat c <=? 2)%Z with true by (symmetry; apply Z.leb_le; lia). reflexivity.
    - replace (Z.of_nat c <=? 2)%Z with false by (symmetry; apply Z.leb_gt; lia). reflexivity.
  Qed.

  Lemma hold_yy_clue grid c :
    forallb hold (yy_clue w grid c) =
    (let v := at2 grid w (fst c) (snd c) in
     if (v =? 1)%Z then negb (lit c) else if (v =? 2)%Z then lit c else true).
  Proof.
    unfold yy_clue. cbv zeta. destruct (at2 grid w (fst c) (snd c) =? 1)%Z.
    - cbn [forallb]. rewrite andb_true_r. unfold hold, holds, yy_nv, yy_v, lit. simpl. destruct (eb en (cidx w c)); reflexivity.
    - destruct (at2 grid w (fst c) (snd c) =? 2)%Z; [|reflexivity].
      cbn [forallb]. rewrite andb_true_r. unfold hold, holds, yy_v, lit. simpl. destruct (eb en (cidx w c)); reflexivity.
  Qed.
End Sem.

(* ---- the rules other than shape and connectivity, plus the auxiliary constraints *)
Definition yy_clues_ok (h w : nat) (grid : list Z) (ans : answer) : bool :=
  forallb (fun v => let c := getz grid v in
     if (c =? 1)%Z then negb (isb (getz ans v)) else if (c =? 2)%Z then isb (getz ans v) else true) (seq 0 (h * w)).
Definition yy_local (h w : nat) (grid : list Z) (ans : answer) : bool :=
  yy_clues_ok h w grid ans &&
  negb (has_2x2 h w (fun y x => isb (getz ans (y * w + x)))) &&
  negb (has_2x2 h w (fun y x => negb (isb (getz ans (y * w + x))))) &&
  yy_aux h w ans.

Lemma rules_yinyang_split h w grid ans :
  rules_yinyang [[Z.of_nat h; Z.of_nat w]; grid] ans && yy_aux h w ans =
  Nat.eqb (length ans) (h * w) && forallb is01 ans &&
  cells_connected h w (fun v => isb (getz ans v)) &&
  cells_connected h w (fun v => negb (isb (getz ans v))) && yy_local h w grid ans.
Proof.
  unfold rules_yinyang, yy_local, yy_clues_ok. destruct (yy_dims h w [grid]) as [-> ->].
  change (sec [[Z.of_nat h; Z.of_nat w]; grid] 1) with grid. cbv zeta.
  set (a := Nat.eqb (length ans) (h * w)). set (b := forallb is01 ans).
  set (c := forallb _ (seq 0 (h * w))).
  set (d := cells_connected h w (fun v => isb (getz ans v))).
  set (e := cells_connected h w (fun v => negb (isb (getz ans v)))).
  set (f := negb (has_2x2 h w (fun y x => isb (getz ans (y * w + x))))).
  set (g := negb (has_2x2 h w (fun y x => negb (isb (getz ans (y * w + x)))))).
  destruct a, b, c, d, e, f, g, (yy_aux h w ans); reflexivity.
Qed.

Lemma yy_local_core gsem h w grid en :
  1 <= h * w ->
  yy_local h w grid (map (fun i => b2z (eb en i)) (seq 0 (h * w))) =
  forallb (holds gsem en) (yinyang_constraints h w grid).
Proof.
  intros Hn. assert (Hh : 1 <= h) by nia. assert (Hw0 : 1 <= w) by nia.
  unfold yy_local, yinyang_constraints, yy_aux, yy_no_checker, yy_switches, yy_clues_ok.
  set (ans := map (fun i => b2z (eb en i)) (seq 0 (h * w))).
  set (lit := fun c : nat * nat => eb en (cidx w c)).
  assert (Hg : forall y x, y < h -> x < w -> isb (getz ans (y * w + x)) = lit (y, x)).
  { intros y x Hy Hx. unfold ans, lit. rewrite getz_map_seq by (apply (cidx_lt h w y x); assumption).
    apply b2z_isb. }
  assert (HB : forall c, fst c < h -> snd c < w -> yy_blk w ans c = lit c).
  { intros [y x] Hy Hx. unfold yy_blk, at2. cbn [fst snd] in *. apply Hg; assumption. }
  rewrite !forallb_app, !forallb_map, forallb_flat_map. cbn [forallb]. rewrite andb_true_r.
  assert (Hblk : forall y x, In (y, x) (cells (h - 1) (w - 1)) -> S y < h /\ S x < w).
  { intros y x Hc. apply cells_in in Hc. lia. }
  match goal with |- ?cl && ?n1 && ?n2 && (?nc && ?sw) = ?o' && (?n' && (?c1 && (?c2 && (?bd && ?cl')))) =>
    assert (H1 : cl = cl'); [|assert (H2 : n1 = n'); [|assert (H3 : n2 = o'); [|assert (H4 : nc = c1 && c2);
      [|assert (H5 : sw = bd); [|rewrite H1, H2, H3, H4, H5; destruct cl', n', o', c1, c2, bd; reflexivity]]]]] end.
  - (* clues *)
    rewrite <- (forallb_cells_seq_yy h w). apply forallb_ext_in. intros [y x] Hc. apply cells_in in Hc.
    destruct Hc as [Hy Hx]. rewrite hold_yy_clue. cbv zeta. unfold cidx, at2. cbn [fst snd].
    rewrite (Hg y x Hy Hx). reflexivity.
  - (* no 2x2 block entirely black *)
    unfold has_2x2. rewrite yy_negb_existsb. apply forallb_ext_in. intros [y x] Hc. destruct (Hblk y x Hc) as [Hy Hx].
    rewrite hold_yy_block_nand. rewrite !Hg by lia. fold (lit (y, x)) (lit (S y, x)) (lit (y, S x)) (lit (S y, S x)).
    destruct (lit (y, x)), (lit (S y, x)), (lit (y, S x)), (lit (S y, S x)); reflexivity.
  - (* no 2x2 block entirely white *)
    unfold has_2x2. rewrite yy_negb_existsb. apply forallb_ext_in. intros [y x] Hc. destruct (Hblk y x Hc) as [Hy Hx].
    rewrite hold_yy_block_or. rewrite !Hg by lia. fold (lit (y, x)) (lit (S y, x)) (lit (y, S x)) (lit (S y, S x)).
    destruct (lit (y, x)), (lit (S y, x)), (lit (y, S x)), (lit (S y, S x)); reflexivity.
  - (* no checkerboard *)
    rewrite <- forallb_and. apply forallb_ext_in. intros [y x] Hc. destruct (Hblk y x Hc) as [Hy Hx].
    rewrite hold_yy_checker1, hold_yy_checker2. rewrite !HB by (cbn [fst snd]; lia). reflexivity.
  - (* the border walk *)
    rewrite hold_yy_border. f_equal. apply count_ext_in. intros p Hp. apply yy_cyc_pairs_in in Hp.
    destruct Hp as [Hp1 Hp2]. apply (yy_circ_in h w _ Hh Hw0) in Hp1. apply (yy_circ_in h w _ Hh Hw0) in Hp2.
    rewrite !HB by tauto. reflexivity.
Qed.

(* ---- the theorems *)
Theorem yinyang_model_exact h w grid st ans :
  solve_yinyang_model [[Z.of_nat h; Z.of_nat w]; grid] = Ok st ->
  ((exists en, model_of gsem_avc en st /\ reads st en (seq 0 (h * w)) = ans)
   <-> rules_yinyang [[Z.of_nat h; Z.of_nat w]; grid] ans && yy_aux h w ans = true).
Proof.
  unfold solve_yinyang_model. destruct (yy_dims h w [grid]) as [-> ->].
  change (sec [[Z.of_nat h; Z.of_nat w]; grid] 1) with grid.
  destruct (post_avc (bool_grid_state (h * w) []) (map BVar (seq 0 (h * w))) (grid_graph h w) false false)
    as [st1|e] eqn:Hp1; [|discriminate].
  destruct (post_avc st1 (map (fun i => BNode NOT [BVar i]) (seq 0 (h * w))) (grid_graph h w) false false)
    as [st2|e] eqn:Hp2; [|discriminate].
  destruct (Nat.ltb (length grid) (h * w)); [discriminate|].
  intros H. inversion H; subst st; clear H.
  rewrite rules_yinyang_split.
  apply (yy_two_avc_compose h w st1 st2 (yinyang_constraints h w grid) Hp1 Hp2 (yy_local h w grid)).
  intros en. apply yy_local_core. exact (post_avc_nonempty _ _ _ _ _ Hp1).
Qed.

(* every model's answer obeys the published rules (this direction needs no planarity) *)
Theorem yinyang_sound h w grid st en :
  solve_yinyang_model [[Z.of_nat h; Z.of_nat w]; grid] = Ok st ->
  model_of gsem_avc en st ->
  rules_yinyang [[Z.of_nat h; Z.of_nat w]; grid] (reads st en (seq 0 (h * w))) = true.
Proof.
  intros Hs Hm.
  assert (H : rules_yinyang [[Z.of_nat h; Z.of_nat w]; grid] (reads st en (seq 0 (h * w))) &&
              yy_aux h w (reads st en (seq 0 (h * w))) = true).
  { apply (yinyang_model_exact h w grid st _ Hs). exists en. split; [exact Hm|reflexivity]. }
  apply andb_true_iff in H. apply H.
Qed.

(* an answer obeying the published rules is the reading of a model PROVIDED it satisfies the three auxiliary
   constraints *)
Theorem yinyang_complete_modulo_aux h w grid st ans :
  solve_yinyang_model [[Z.of_nat h; Z.of_nat w]; grid] = Ok st ->
  rules_yinyang [[Z.of_nat h; Z.of_nat w]; grid] ans = true ->
  yy_aux h w ans = true ->
  exists en, model_of gsem_avc en st /\ reads st en (seq 0 (h * w)) = ans.
Proof.
  intros Hs Hr Ha. apply (yinyang_model_exact h w grid st ans Hs). rewrite Hr, Ha. reflexivity.
Qed.

(* the full exactness statement of property C11 for this module *)
Definition yinyang_exact_statement : Prop :=
  forall h w grid st ans,
    solve_yinyang_model [[Z.of_nat h; Z.of_nat w]; grid] = Ok st ->
    ((exists en, model_of gsem_avc en st /\ reads st en (seq 0 (h * w)) = ans)
     <-> rules_yinyang [[Z.of_nat h; Z.of_nat w]; grid] ans = true).

Theorem yinyang_exact_if_aux_implied : yinyang_aux_implied_statement -> yinyang_exact_statement.
Proof.
  intros Haux h w grid st ans Hs. rewrite (yinyang_model_exact h w grid st ans Hs). split.
  - intros H. apply andb_true_iff in H. apply H.
  - intros Hr. rewrite Hr, (Haux h w grid ans Hr). reflexivity.
Qed.

(* conversely, on every board on which the model is defined, exactness forces the auxiliary constraints to be implied:
   the planarity statement is exactly what is needed, nothing weaker would do *)
Theorem yinyang_aux_needed h w grid st ans :
  solve_yinyang_model [[Z.of_nat h; Z.of_nat w]; grid] = Ok st ->
  ((exists en, model_of gsem_avc en st /\ reads st en (seq 0 (h * w)) = ans)
   <-> rules_yinyang [[Z.of_nat h; Z.of_nat w]; grid] ans = true) ->
  rules_yinyang [[Z.of_nat h; Z.of_nat w]; grid] ans = true -> yy_aux h w ans = true.
Proof.
  intros Hs Hex Hr. apply Hex in Hr. apply (yinyang_model_exact h w grid st ans Hs) in Hr.
  apply andb_true_iff in Hr. apply Hr.
Qed.

(* the hypothesis of the theorems holds exactly for the boards with at least one cell and a full clue list *)
Theorem yinyang_model_defined h w grid :
  (exists st, solve_yinyang_model [[Z.of_nat h; Z.of_nat w]; grid] = Ok st) <-> 0 < h * w <= length grid.
Proof.
  unfold solve_yinyang_model. destruct (yy_dims h w [grid]) as [-> ->].
  change (sec [[Z.of_nat h; Z.of_nat w]; grid] 1) with grid. split.
  - intros [st H].
    destruct (post_avc (bool_grid_state (h * w) []) (map BVar (seq 0 (h * w))) (grid_graph h w) false false)
      as [st1|e] eqn:Hp1; [|discriminate].
    pose proof (post_avc_nonempty _ _ _ _ _ Hp1) as Hn. change (nv (grid_graph h w)) with (h * w) in Hn.
    destruct (post_avc st1 (map (fun i => BNode NOT [BVar i]) (seq 0 (h * w))) (grid_graph h w) false false);
      [|discriminate].
    destruct (Nat.ltb_spec (length grid) (h * w)); [discriminate|]. lia.
  - intros [Hn Hl].
    destruct (post_avc_succeeds (bool_grid_state (h * w) []) (map BVar (seq 0 (h * w))) (grid_graph h w) false
                (grid_wf h w) Hn) as [st1 Hp1].
    { rewrite map_length, seq_length. apply Nat.le_refl. }
    { intros a Ha. apply in_map_iff in Ha. destruct Ha as [i [<- _]]. reflexivity. }
    rewrite Hp1.
    destruct (post_avc_succeeds st1 (map (fun i => BNode NOT [BVar i]) (seq 0 (h * w))) (grid_graph h w) false
                (grid_wf h w) Hn) as [st2 Hp2].
    { rewrite map_length, seq_length. apply Nat.le_refl. }
    { intros a Ha. apply in_map_iff in Ha. destruct Ha as [i [<- _]]. reflexivity. }
    rewrite Hp2. destruct (Nat.ltb_spec (length grid) (h * w)); [lia|]. eexists. reflexivity.
Qed.

(* the hypothesis of the theorems is satisfiable: the model is defined on every board with a cell and a complete
   clue grid *)
Example yinyang_model_ok :
  exists st, solve_yinyang_model [[2; 3]; [0; 1; 0; 2; 0; 0]]%Z = Ok st.
Proof. vm_compute. eexists. reflexivity. Qed.
