open Model
open Zutil

(* decimal string -> Z of any size (indices / slice bounds beyond the OCaml int range) *)
let zparse (s : string) : z =
  let n = String.length s in
  if n <= 17 then z_of_int (int_of_string s)
  else begin
    let neg = s.[0] = '-' in
    let start = if neg || s.[0] = '+' then 1 else 0 in
    let ten = z_of_int 10 in
    let acc = ref Z0 in
    for i = start to n - 1 do
      let c = Char.code s.[i] - 48 in
      if c < 0 || c > 9 then failwith "int";
      acc := Z.add (Z.mul !acc ten) (z_of_int c)
    done;
    if neg then Z.opp !acc else !acc
  end

let opt = function "_" -> None | s -> Some (zparse s)

(* key:  i N | s a b c *)
let parse_key toks = match toks with
  | "i" :: n :: rest -> (KInt (zparse n), rest)
  | "s" :: a :: b :: c :: rest -> (KSlice (opt a, opt b, opt c), rest)
  | _ -> failwith "key"

let rec pairs = function
  | y :: x :: rest -> (zparse y, zparse x) :: pairs rest
  | [] -> [] | _ -> failwith "pairs"

let parse_key2 toks = match toks with
  | "1" :: rest -> let (k, _) = parse_key rest in K1 k
  | "2" :: rest -> let (ky, r) = parse_key rest in let (kx, _) = parse_key r in K2 (ky, kx)
  | "L" :: rest -> KL (pairs rest)
  | _ -> failwith "key2"

let iota n = List.init n (fun i -> z_of_int i)
let rows h w = List.init h (fun y -> List.init w (fun x -> z_of_int (y * w + x)))

let show = function
  | Err e -> "E " ^ string_of_int (int_of_nat (pyerr_code e))
  | Ok (RScalar a) -> "S " ^ zs [a]
  | Ok (R1 l) -> "1 " ^ zs l
  | Ok (R2 (h, w, l)) -> "2 " ^ zs [h; w] ^ " : " ^ zs l

let rec split_semi acc = function
  | ";" :: rest -> (List.rev acc, rest)
  | t :: rest -> split_semi (t :: acc) rest
  | [] -> (List.rev acc, [])

let handle toks = match toks with
  (* chained indexing a[k1][k2]: the model applied to its own result *)
  | "CH" :: h :: w :: rest ->
      let h = int_of_string h and w = int_of_string w in
      let (k1, k2) = split_semi [] rest in
      (match getitem2 (z_of_int h) (z_of_int w) (iota (h * w)) (parse_key2 k1) with
       | Err e -> show (Err e)
       | Ok (R2 (h2, w2, l)) -> show (getitem2 h2 w2 l (parse_key2 k2))
       | Ok (R1 l) ->
           (match k2 with
            | "1" :: r -> let (k, _) = parse_key r in show (getitem1 l k)
            | _ -> failwith "chain: 1-D result needs an int/slice key")
       | Ok (RScalar _) -> failwith "chain on a scalar")
  | "G2" :: h :: w :: rest ->
      let h = int_of_string h and w = int_of_string w in
      show (getitem2 (z_of_int h) (z_of_int w) (iota (h * w)) (parse_key2 rest))
  | "P2" :: h :: w :: rest ->
      let h = int_of_string h and w = int_of_string w in
      show (spec_getitem2 (z_of_int h) (z_of_int w) (rows h w) (parse_key2 rest))
  | "G1" :: n :: rest ->
      let (k, _) = parse_key rest in show (getitem1 (iota (int_of_string n)) k)
  | "RS" :: n :: h :: w :: _ ->
      show (reshape (iota (int_of_string n)) (zparse h) (zparse w))
  | _ -> "EXN bad request"

let () = main_loop handle
