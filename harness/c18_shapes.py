"""C18 hardening: block-shape generators that do not depend on the code under test.

Everything here builds *cell sets* and *partitions* from first principles (own flood fill), so that the
correspondence stream and the property-level search of pC18.py see shapes which short random walks from
initial() practically never reach: rings, rings with tails, blocks with holes, long snakes / spirals /
combs, non-convex blocks of 16 and more cells, every cell subset of the small boards.
"""


def nbrs(c):
    y, x = c
    return ((y - 1, x), (y + 1, x), (y, x - 1), (y, x + 1))


def board(h, w):
    return [(y, x) for y in range(h) for x in range(w)]


def components(cells):
    """connected components (orthogonal adjacency) of a set of cells; deterministic order"""
    todo = set(cells)
    out = []
    for c in sorted(todo):
        if c not in todo:
            continue
        todo.discard(c)
        comp, stack = [c], [c]
        while stack:
            p = stack.pop()
            for n in nbrs(p):
                if n in todo:
                    todo.discard(n)
                    comp.append(n)
                    stack.append(n)
        out.append(sorted(comp))
    return out


def connected(cells):
    s = set(cells)
    return len(s) > 0 and len(components(s)) == 1


def has_hole(h, w, block):
    """some component of the complement does not touch the border of the board"""
    s = set(block)
    for comp in components([c for c in board(h, w) if c not in s]):
        if all(0 < y < h - 1 and 0 < x < w - 1 for (y, x) in comp):
            return True
    return False


def subsets(h, w, min_size=1):
    cells = board(h, w)
    n = len(cells)
    for mask in range(1, 1 << n):
        b = [cells[i] for i in range(n) if (mask >> i) & 1]
        if len(b) >= min_size:
            yield b


_CACHE = {}


def _mask_tables(h, w):
    n = h * w
    full = (1 << n) - 1
    not_first_col = sum(1 << (y * w + x) for y in range(h) for x in range(w) if x != 0)
    not_last_col = sum(1 << (y * w + x) for y in range(h) for x in range(w) if x != w - 1)
    return n, full, not_first_col, not_last_col


def mask_connected(h, w, mask, tables=None):
    """flood fill on bit masks (bit y*w+x = cell (y, x)); the empty set is not connected"""
    if mask == 0:
        return False
    n, full, nfc, nlc = tables or _mask_tables(h, w)
    seen = mask & -mask
    while True:
        grow = (seen | ((seen << 1) & nfc) | ((seen >> 1) & nlc) | (seen << w) | (seen >> w)) & mask
        if grow == seen:
            return seen == mask
        seen = grow


def mask_cells(h, w, mask):
    return [(i // w, i % w) for i in range(h * w) if (mask >> i) & 1]


def connected_masks(h, w):
    key = (h, w)
    if key not in _CACHE:
        t = _mask_tables(h, w)
        _CACHE[key] = [m for m in range(1, 1 << (h * w)) if mask_connected(h, w, m, t)]
    return _CACHE[key]


def connected_subsets(h, w):
    return [mask_cells(h, w, m) for m in connected_masks(h, w)]


def split_component(rng, comp, pieces):
    """cut one connected component into `pieces` connected parts (grown from random seeds)"""
    pieces = max(1, min(pieces, len(comp)))
    if pieces == 1:
        return [list(comp)]
    s = set(comp)
    seeds = rng.sample(sorted(s), pieces)
    owner = {c: i for i, c in enumerate(seeds)}
    parts = [[c] for c in seeds]
    frontier = list(seeds)
    while len(owner) < len(s):
        c = rng.choice(frontier)
        free = [n for n in nbrs(c) if n in s and n not in owner]
        if not free:
            frontier.remove(c)
            continue
        n = rng.choice(free)
        owner[n] = owner[c]
        parts[owner[c]].append(n)
        frontier.append(n)
    return parts


def partition_around(h, w, block, rng=None, cut=0.0, order="first"):
    """a valid partition of the board that contains `block` (must be connected): the other blocks are the
    connected components of the complement, each optionally cut further into connected parts.
    order: 'first' (block is blocks[0]), 'last', 'shuffle'."""
    s = set(block)
    rest = []
    for comp in components([c for c in board(h, w) if c not in s]):
        k = 1
        if rng is not None and cut > 0 and len(comp) > 1 and rng.random() < cut:
            k = rng.randint(2, min(4, len(comp)))
        rest.extend(split_component(rng, comp, k) if k > 1 else [comp])
    blocks = [list(block)] + [list(b) for b in rest]
    if order == "last":
        blocks = blocks[1:] + blocks[:1]
    elif order == "shuffle" and rng is not None:
        rng.shuffle(blocks)
    return blocks


def reorder(rng, block, mode=None):
    """cell order inside a block: sorted / reversed / shuffled / column-major"""
    b = sorted(block)
    mode = rng.randrange(4) if mode is None else mode
    if mode == 1:
        b.reverse()
    elif mode == 2:
        rng.shuffle(b)
    elif mode == 3:
        b.sort(key=lambda c: (c[1], c[0]))
    return b


# ---------------------------------------------------------------- named shapes

def ring(y0, x0, a, b):
    """border cells of the a x b rectangle whose top-left corner is (y0, x0) (a, b >= 3)"""
    return [(y, x) for y in range(y0, y0 + a) for x in range(x0, x0 + b)
            if y in (y0, y0 + a - 1) or x in (x0, x0 + b - 1)]


def grow_tail(rng, h, w, taken, start, length):
    """self-avoiding path of up to `length` free cells starting next to `start` (a cell of `taken`)"""
    tail = []
    cur = start
    used = set(taken)
    for _ in range(length):
        free = [n for n in nbrs(cur) if 0 <= n[0] < h and 0 <= n[1] < w and n not in used]
        if not free:
            break
        # prefer cells that do not touch the shape elsewhere (a real tail, not a thickening)
        lonely = [n for n in free if sum(1 for m in nbrs(n) if m in used) == 1]
        cur = rng.choice(lonely or free)
        used.add(cur)
        tail.append(cur)
    return tail


def ring_with_tails(rng, h, w):
    """a rectangular ring (hole of one or more cells) plus 1..3 tails of 1..4 cells; None when the board is too small"""
    if h < 3 or w < 3:
        return None
    a = rng.randint(3, min(h, 5))
    b = rng.randint(3, min(w, 5))
    y0 = rng.randint(0, h - a)
    x0 = rng.randint(0, w - b)
    shape = ring(y0, x0, a, b)
    for _ in range(rng.randint(1, 3)):
        start = rng.choice(shape[:2 * (a + b) - 4])
        shape = shape + grow_tail(rng, h, w, shape, start, rng.randint(1, 4))
    if len(shape) == h * w:
        return None
    return shape


def carve(rng, h, w, k):
    """random connected block of k cells obtained from the full board by deleting cells one at a time while
    the rest stays connected: produces holes, notches, C / U shapes -- the opposite of the convex blobs
    that region growing yields"""
    cells = set(board(h, w))
    order = sorted(cells)
    rng.shuffle(order)
    guard = 0
    while len(cells) > k and guard < 40 * h * w:
        guard += 1
        c = order[guard % len(order)] if rng.random() < 0.5 else rng.choice(sorted(cells))
        if c not in cells:
            continue
        cells.discard(c)
        if not connected(cells):
            cells.add(c)
    return sorted(cells)


def snake(h, w):
    """boustrophedon path through every second row: rows joined alternately at the right / left end"""
    out = []
    for y in range(0, h, 2):
        out.extend((y, x) for x in range(w))
        if y + 1 < h and y + 2 < h:
            out.append((y + 1, w - 1 if (y // 2) % 2 == 0 else 0))
    return out


def spiral(h, w):
    """one-cell-wide inward spiral with a one-cell gap between the arms"""
    s = set()
    top, left, bot, right = 0, 0, h - 1, w - 1
    y, x = 0, 0
    path = [(0, 0)]
    s.add((0, 0))
    dirs = [(0, 1), (1, 0), (0, -1), (-1, 0)]
    d = 0
    lim = [top, left, bot, right]
    stuck = 0
    while stuck < 2:
        dy, dx = dirs[d]
        ny, nx = y + dy, x + dx
        ok = lim[0] <= ny <= lim[2] and lim[1] <= nx <= lim[3] and (ny, nx) not in s
        if ok:
            # the cell two ahead must not already be in the spiral (keeps the gap)
            ay, ax = ny + dy, nx + dx
            if (ay, ax) in s:
                ok = False
        if ok and sum(1 for m in nbrs((ny, nx)) if m in s) > 1:
            ok = False
        if ok:
            y, x = ny, nx
            s.add((y, x))
            path.append((y, x))
            stuck = 0
        else:
            d = (d + 1) % 4
            stuck += 1
    return path


def comb(h, w):
    """a spine along the top row with teeth in every second column"""
    out = [(0, x) for x in range(w)]
    for x in range(0, w, 2):
        out.extend((y, x) for y in range(1, h))
    return out


def u_shape(h, w):
    return [(y, x) for y in range(h) for x in range(w) if x in (0, w - 1) or y == h - 1]


def c_shape(h, w):
    return [(y, x) for y in range(h) for x in range(w) if y in (0, h - 1) or x == 0]


def plus_shape(h, w):
    cy, cx = h // 2, w // 2
    return [(y, x) for y in range(h) for x in range(w) if y == cy or x == cx]


def x_staircase(h, w):
    """two-cell-wide diagonal staircase"""
    return [(y, x) for y in range(h) for x in range(w) if x - y in (0, 1)]


def notched_rect(h, w):
    """the full board with a deep notch cut from the top in the middle column(s) (U with thick walls)"""
    cx = w // 2
    return [(y, x) for y in range(h) for x in range(w) if not (x == cx and y < h - 1)]


def frame_with_bar(h, w):
    """ring around the whole board plus a bar from the top side into the interior (two holes when it reaches the bottom)"""
    s = set(ring(0, 0, h, w))
    cx = w // 2
    for y in range(1, h - 2):
        s.add((y, cx))
    return sorted(s)


CATALOGUE = [("snake", snake), ("spiral", spiral), ("comb", comb), ("u", u_shape), ("c", c_shape), ("plus", plus_shape),
             ("staircase", x_staircase), ("notched", notched_rect), ("frame-bar", frame_with_bar),
             ("frame", lambda h, w: ring(0, 0, h, w) if h >= 3 and w >= 3 else board(h, w))]


def transforms(h, w, cells):
    """the shape and its mirror images / transpose that fit the same board"""
    out = [cells, [(h - 1 - y, x) for (y, x) in cells], [(y, w - 1 - x) for (y, x) in cells]]
    if h == w:
        out.append([(x, y) for (y, x) in cells])
    return out


def catalogue(h, w):
    """(name, block) for every catalogue shape that is a connected proper subset of the h x w board"""
    out = []
    for name, f in CATALOGUE:
        try:
            cells = f(h, w)
        except Exception:  # noqa
            continue
        cells = sorted(set(c for c in cells if 0 <= c[0] < h and 0 <= c[1] < w))
        if 0 < len(cells) < h * w and connected(cells):
            for k, t in enumerate(transforms(h, w, cells)):
                out.append(("%s/%d" % (name, k), sorted(t)))
    return out
