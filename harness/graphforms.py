"""Input classes shared by the hardened graph checks (C06, C07, C09): graph *forms* (edge
orientation / order, parallel bundles, self-loops, cycles stored head-to-tail), structured
instances just beyond the exhaustive scope (two disjoint cycles, complete graphs, wheels,
prisms, even/odd long paths and cycles, dense 7-vertex graphs), targeted edge patterns for
them, and one-shot iterable wrappers.  Plain Python, no cspuz import; everything random
comes from the rng handed in (ctx.rng)."""


# ---------------------------------------------------------------- building blocks

def cyc(vs):
    """cycle through vs, stored head-to-tail: (v0,v1),(v1,v2),...,(vk,v0) -- the closing edge is (larger, smaller)
    when vs is increasing"""
    return [(vs[i], vs[(i + 1) % len(vs)]) for i in range(len(vs))]


def path(vs):
    return [(vs[i], vs[i + 1]) for i in range(len(vs) - 1)]


def complete(n):
    return [(a, b) for a in range(n) for b in range(a + 1, n)]


def wheel(k):
    """hub 0, rim 1..k (k+1 vertices, 2k edges): rim first, then spokes stored (rim, hub)"""
    rim = list(range(1, k + 1))
    return cyc(rim) + [(v, 0) for v in rim]


def prism(k):
    return cyc(list(range(k))) + cyc(list(range(k, 2 * k))) + [(i, i + k) for i in range(k)]


def petersen():
    return cyc([0, 1, 2, 3, 4]) + [(i, i + 5) for i in range(5)] + [(5 + i, 5 + (i + 2) % 5) for i in range(5)]


def bundle(k, a=0, b=1):
    """k parallel edges between a and b, alternating orientation"""
    return [(a, b) if i % 2 == 0 else (b, a) for i in range(k)]


def k33():
    return [(a, b) for a in range(3) for b in range(3, 6)]


def desc(edges):
    """every edge stored as (larger, smaller)"""
    return [(max(a, b), min(a, b)) for a, b in edges]


def flipped(rng, edges, p=0.5):
    return [(b, a) if rng.random() < p else (a, b) for a, b in edges]


def shuffled(rng, edges, p=0.5):
    es = flipped(rng, edges, p)
    rng.shuffle(es)
    return es


def dense7(rng, extra):
    """7 vertices, connected, 7 + extra edges (extra >= 3: more edges than the n+2 of the exhaustive/random scope),
    loop-free, parallel edges possible, random orientation"""
    n = 7
    order = list(range(n))
    rng.shuffle(order)
    es = [(order[i], order[rng.randrange(i)]) for i in range(1, n)]
    while len(es) < n + extra:
        a = rng.randrange(n)
        b = (a + 1 + rng.randrange(n - 1)) % n
        es.append((a, b))
    return n, shuffled(rng, es)


def structured(rng, loops=False):
    """(name, n, edges): instances just beyond the small exhaustive scope."""
    out = [
        ("C3+C3-headtail", 6, cyc([0, 1, 2]) + cyc([3, 4, 5])),
        ("C3+C3-desc", 6, desc(cyc([0, 1, 2]) + cyc([3, 4, 5]))),
        ("C4+C3-interleaved", 7, cyc([0, 2, 4, 6]) + cyc([5, 3, 1])),
        ("C4+C4", 8, cyc([0, 1, 2, 3]) + cyc([4, 5, 6, 7])),
        ("C4+C4-desc-shuffled", 8, shuffled(rng, cyc([0, 1, 2, 3]) + cyc([7, 6, 5, 4]), 1.0)),
        ("C3+C5", 8, cyc([7, 0, 3]) + cyc([1, 2, 4, 5, 6])),
        ("C5+2cycle", 7, cyc([0, 1, 2, 3, 4]) + [(5, 6), (6, 5)]),
        ("K5", 5, complete(5)),
        ("K5-desc", 5, desc(complete(5))[::-1]),
        ("K6", 6, complete(6)),
        ("K33", 6, k33()),
        ("W5", 6, wheel(5)),
        ("W6", 7, wheel(6)),
        ("W7", 8, wheel(7)),
        ("prism3-mixed", 6, flipped(rng, prism(3))),
        ("prism4", 8, prism(4)),
        ("petersen", 10, petersen()),
        ("bundle5", 2, bundle(5)),
        ("bundle3+bundle3", 3, bundle(3, 0, 1) + bundle(3, 2, 1)),
        ("doubled-C4", 4, cyc([0, 1, 2, 3]) + cyc([3, 2, 1, 0])),
        ("P8", 8, path(list(range(8)))),
        ("P9-desc", 9, desc(path(list(range(9))))),
        ("P10-zigzag", 10, path([0, 9, 1, 8, 2, 7, 3, 6, 4, 5])),
        ("C6", 6, cyc(list(range(6)))),
        ("C7-desc", 7, desc(cyc(list(range(7))))),
        ("C8", 8, cyc([0, 4, 1, 5, 2, 6, 3, 7])),
        ("C9", 9, cyc(list(range(9)))),
        ("C10", 10, cyc(list(range(9, -1, -1)))),
        ("ladder2x5", 10, [(i, i + 1) for i in range(4)] + [(i + 5, i + 6) for i in range(4)] + [(i, i + 5) for i in range(5)]),
        ("star7+rim-edge", 8, [(0, v) for v in range(1, 8)] + [(3, 2)]),
        # vertices whose degree passes 16 / 32 (aggregate helpers over long operand lists): every cycle goes through
        # the hub and uses one of its last-added incident edges
        ("star17+rim", 18, [(0, v) for v in range(1, 18)] + [(1, 17), (16, 17)]),
        ("bundle17", 2, bundle(17)),
    ]
    for extra in (3, 4, 6):
        n, es = dense7(rng, extra)
        out.append(("dense7+%d" % extra, n, es))
    if loops:
        out += [
            ("loop+triangle", 3, [(0, 0)] + cyc([0, 1, 2])),
            ("loops-on-path", 4, [(0, 1), (1, 1), (2, 1), (3, 2), (3, 3)]),
            ("K4+loops", 4, complete(4) + [(2, 2), (0, 0)]),
        ]
    return out


# ---------------------------------------------------------------- targeted patterns

def _incidence(n, edges):
    inc = [[] for _ in range(n)]
    for k, (a, b) in enumerate(edges):
        inc[a].append((b, k))
        if a != b:
            inc[b].append((a, k))
    return inc


def random_trail(rng, n, edges, banned=(), maxlen=None, close=False):
    """a self-avoiding walk (simple path) over vertices outside `banned`; with close=True it is closed into a simple
    cycle when an edge back to an earlier vertex exists.  -> (edge ids, vertices) ; may be empty"""
    inc = _incidence(n, edges)
    free = [v for v in range(n) if v not in banned and inc[v]]
    if not free:
        return [], []
    v = rng.choice(free)
    verts, used = [v], []
    limit = maxlen if maxlen is not None else rng.randint(1, n)
    while len(used) < limit:
        nxt = [(u, k) for (u, k) in inc[verts[-1]] if u not in verts and u not in banned]
        if not nxt:
            break
        u, k = rng.choice(nxt)
        verts.append(u)
        used.append(k)
    if close and used:
        back = [(u, k) for (u, k) in inc[verts[-1]] if u in verts[:-1] and k != used[-1]]
        if back:
            u, k = rng.choice(back)
            i = verts.index(u)
            return used[i:] + [k], verts[i:]
    return used, verts


def targeted_patterns(rng, n, edges, count):
    """edge subsets around the cycle / path / forest boundaries: simple cycles and paths of every length the graph has,
    two vertex-disjoint pieces, a piece plus one extra edge, a piece minus one edge, spanning trees with one flip, and a
    few uniform subsets; always the empty set and the full set."""
    m = len(edges)
    pats = {tuple([False] * m), tuple([True] * m)}

    def mk(ids):
        p = [False] * m
        for k in ids:
            p[k] = True
        return tuple(p)
    for _ in range(count * 4):
        if len(pats) >= count + 2:
            break
        c = rng.random()
        ids, vs = random_trail(rng, n, edges, close=(c < 0.55), maxlen=(n if rng.random() < 0.5 else None))
        if c < 0.2 or 0.55 <= c < 0.7:
            pats.add(mk(ids))
        elif c < 0.35 or 0.7 <= c < 0.8:
            ids2, _ = random_trail(rng, n, edges, banned=set(vs), close=rng.random() < 0.6)
            pats.add(mk(ids + ids2))
        elif c < 0.45 or 0.8 <= c < 0.88:
            if m:
                pats.add(mk(ids + [rng.randrange(m)]))
        elif c < 0.55:
            if ids:
                drop = rng.randrange(len(ids))
                pats.add(mk(ids[:drop] + ids[drop + 1:]))
        elif c < 0.95:
            # spanning forest with one flip
            parent = list(range(n))

            def find(x):
                while parent[x] != x:
                    x = parent[x]
                return x
            order = list(range(m))
            rng.shuffle(order)
            tree = []
            for k in order:
                a, b = edges[k]
                ra, rb = find(a), find(b)
                if ra != rb:
                    parent[ra] = rb
                    tree.append(k)
            p = list(mk(tree))
            if m:
                k = rng.randrange(m)
                p[k] = not p[k]
            pats.add(tuple(p))
        else:
            pats.add(tuple(rng.random() < 0.35 for _ in range(m)))
    return sorted(pats)


# ---------------------------------------------------------------- one-shot iterables

ONESHOT = ["gen", "iter", "map", "reversed", "zip"]


def oneshot(kind, items):
    """a one-shot iterable producing `items` (the model / oracle sees the materialised list)"""
    items = list(items)
    if kind == "gen":
        return (x for x in items)
    if kind == "iter":
        return iter(items)
    if kind == "map":
        return map(lambda x: x, items)
    if kind == "reversed":
        return reversed(items[::-1])
    if kind == "zip":
        return (x for (x, _) in zip(items, range(len(items))))
    raise ValueError(kind)
