(* C19 — proofs about the builder model (Generator/Builder.v): what the updates
   proposed by ArrayBuilder2D.candidates look like, locality of neighbours over
   nested patterns, and the symmetry / adjacency invariants. *)
From Coq Require Import ZArith List Bool Lia.
From Cspuz Require Import Lib.PyErr Generator.XorShift Generator.XorShiftProofs Generator.Builder.
Import ListNotations.
Open Scope Z_scope.

Arguments next : simpl never.

(* ------------------------------------------------------------------ the monad *)

Lemma bindR_Done {A B} (m : R A) (f : A -> R B) s b s' :
  bindR m f s = Done b s' -> exists a s1, m s = Done a s1 /\ f a s1 = Done b s'.
Proof. unfold bindR. destruct (m s) as [a s1| |]; try discriminate. intros H; exists a, s1; auto. Qed.

Lemma retR_Done {A} (a b : A) s s' : retR a s = Done b s' -> a = b /\ s = s'.
Proof. unfold retR; intros H; inversion H; auto. Qed.

Lemma raiseR_Done {A} e s (b : A) s' : raiseR e s = Done b s' -> False.
Proof. discriminate. Qed.

Lemma cellR_Done g y x s v s' : cellR g y x s = Done v s' -> cell g y x = Some v /\ s' = s.
Proof. unfold cellR. destruct (cell g y x); [|discriminate]. intros H; apply retR_Done in H. destruct H; subst; auto. Qed.

Lemma concat_mapR_in {X U} (f : X -> R (list U)) : forall l s r s' u,
  concat_mapR f l s = Done r s' -> In u r ->
  exists x s1 s2 us, In x l /\ f x s1 = Done us s2 /\ In u us.
Proof.
  induction l as [|x t IH]; intros s r s' u H Hu; cbn [concat_mapR] in H.
  - apply retR_Done in H. destruct H; subst. destruct Hu.
  - apply bindR_Done in H. destruct H as (us & s1 & H1 & H).
    apply bindR_Done in H. destruct H as (vs & s2 & H2 & H).
    apply retR_Done in H. destruct H; subst.
    apply in_app_or in Hu. destruct Hu as [Hu|Hu].
    + exists x, s, s1, us. split; [left; reflexivity|auto].
    + destruct (IH _ _ _ _ H2 Hu) as (x' & sa & sb & us' & Hx & Hf & Hin).
      exists x', sa, sb, us'. split; [right; exact Hx|auto].
Qed.

Ltac inv_do H :=
  repeat lazymatch type of H with
  | bindR _ _ _ = Done _ _ =>
      let a := fresh "a" in let s := fresh "s" in let H1 := fresh "Hd" in
      apply bindR_Done in H; destruct H as (a & s & H1 & H)
  | cellR _ _ _ _ = Done _ _ => apply cellR_Done in H; destruct H; subst
  end.

(* ------------------------------------------------------------------ ranges *)

Lemma in_range_z n z : In z (range_z n) <-> 0 <= z < n.
Proof.
  unfold range_z. rewrite in_map_iff. split.
  - intros (k & <- & Hk). apply in_seq in Hk. lia.
  - intros Hz. exists (Z.to_nat z). split; [lia|]. apply in_seq. lia.
Qed.

Definition in_grid (c : acfg) (y x : Z) : Prop := 0 <= y < a_height c /\ 0 <= x < a_width c.

Lemma in_cells_of c y x : In (y, x) (cells_of c) <-> in_grid c y x.
Proof.
  unfold cells_of, in_grid. rewrite in_flat_map. split.
  - intros (y' & Hy & Hx). apply in_map_iff in Hx. destruct Hx as (x' & E & Hx). inversion E; subst.
    apply in_range_z in Hy. apply in_range_z in Hx. lia.
  - intros [Hy Hx]. exists y. split; [apply in_range_z; lia|]. apply in_map_iff. exists x.
    split; [reflexivity|apply in_range_z; lia].
Qed.

(* ------------------------------------------------------------------ writing cells *)

Lemma nth_error_map_indexed {A B} (f : nat -> A -> B) : forall (l : list A) a n,
  nth_error (map (fun '(k, c) => f k c) (combine (seq a (length l)) l)) n =
  option_map (f (a + n)%nat) (nth_error l n).
Proof.
  induction l as [|x t IH]; intros a n; cbn [length seq combine map].
  - destruct n; reflexivity.
  - destruct n as [|n]; cbn [nth_error option_map].
    + rewrite Nat.add_0_r. reflexivity.
    + rewrite IH. replace (S a + n)%nat with (a + S n)%nat by lia. reflexivity.
Qed.

Lemma nth_error_set_row row x v n :
  nth_error (set_row row x v) n =
  option_map (fun c => if Z.of_nat n =? x then v else c) (nth_error row n).
Proof. unfold set_row. rewrite (nth_error_map_indexed (fun k c => if Z.of_nat k =? x then v else c)). reflexivity. Qed.

Lemma cell_set_cell g y x v y' x' :
  cell (set_cell g y x v) y' x' =
  option_map (fun c => if (y' =? y) && (x' =? x) then v else c) (cell g y' x').
Proof.
  unfold cell. destruct ((y' <? 0) || (x' <? 0)) eqn:E; [reflexivity|].
  apply orb_false_iff in E. destruct E as [Ey Ex]. apply Z.ltb_ge in Ey. apply Z.ltb_ge in Ex.
  unfold set_cell.
  rewrite (nth_error_map_indexed (fun k row => if Z.of_nat k =? y then set_row row x v else row)).
  cbn [Nat.add]. destruct (nth_error g (Z.to_nat y')) as [row|]; cbn [option_map]; [|reflexivity].
  rewrite Z2Nat.id by lia.
  destruct (y' =? y); cbn [andb].
  - rewrite nth_error_set_row. rewrite Z2Nat.id by lia. reflexivity.
  - destruct (nth_error row (Z.to_nat x')); reflexivity.
Qed.

(* the value written last to (y, x) by an update, or the old value *)
Definition last_write (u : list (Z * Z * Z)) (y x : Z) (old : Z) : Z :=
  fold_left (fun acc '(y', x', v) => if (y =? y') && (x =? x') then v else acc) u old.

Lemma cell_apply_cells u : forall g y x,
  cell (apply_cells g u) y x = option_map (last_write u y x) (cell g y x).
Proof.
  induction u as [|[[y' x'] v] t IH]; intros g y x; unfold apply_cells, last_write; cbn [fold_left].
  - destruct (cell g y x); reflexivity.
  - fold (apply_cells (set_cell g y' x' v) t). rewrite IH, cell_set_cell.
    destruct (cell g y x); reflexivity.
Qed.

Lemma last_write_cases u : forall y x old,
  last_write u y x old = old \/ exists v, In (y, x, v) u /\ last_write u y x old = v.
Proof.
  induction u as [|[[y' x'] v] t IH]; intros y x old; unfold last_write; cbn [fold_left]; [left; reflexivity|].
  fold (last_write t y x (if (y =? y') && (x =? x') then v else old)).
  destruct (IH y x (if (y =? y') && (x =? x') then v else old)) as [E|(v' & Hin & E)].
  - destruct ((y =? y') && (x =? x')) eqn:B.
    + right. exists v. apply andb_true_iff in B. destruct B as [B1 B2].
      apply Z.eqb_eq in B1. apply Z.eqb_eq in B2. subst. split; [left; reflexivity|exact E].
    + left. exact E.
  - right. exists v'. split; [right; exact Hin|exact E].
Qed.

Lemma last_write_notin u y x old :
  (forall v, ~ In (y, x, v) u) -> last_write u y x old = old.
Proof.
  intros H. destruct (last_write_cases u y x old) as [E|(v & Hin & _)]; [exact E|]. exfalso; eapply H; eauto.
Qed.

(* ------------------------------------------------------------------ booleans *)

Ltac b2p :=
  repeat match goal with
  | H : negb _ = true |- _ => apply negb_true_iff in H
  | H : negb _ = false |- _ => apply negb_false_iff in H
  | H : (_ && _) = true |- _ => apply andb_true_iff in H; destruct H
  | H : (_ =? _) = true |- _ => apply Z.eqb_eq in H
  | H : (_ =? _) = false |- _ => apply Z.eqb_neq in H
  | H : (_ <=? _) = true |- _ => apply Z.leb_le in H
  | H : (_ <? _) = true |- _ => apply Z.ltb_lt in H
  end.

Lemma pair_eqb_true p q : pair_eqb p q = true <-> p = q.
Proof.
  destruct p as [a b], q as [a' b']. unfold pair_eqb; cbn [fst snd]. rewrite andb_true_iff, !Z.eqb_eq.
  split; [intros [-> ->]; reflexivity|intros E; inversion E; auto].
Qed.

Lemma pair_eqb_false p q : pair_eqb p q = false <-> p <> q.
Proof.
  rewrite <- pair_eqb_true. destruct (pair_eqb p q); split; try congruence; intros H; exfalso; apply H; reflexivity.
Qed.

Lemma mem_pair_true p l : mem_pair p l = true <-> In p l.
Proof.
  unfold mem_pair. rewrite existsb_exists. split.
  - intros (q & Hq & E). apply pair_eqb_true in E. subst; exact Hq.
  - intros H. exists p. split; [exact H|apply pair_eqb_true; reflexivity].
Qed.

Lemma in_non_default c v : In v (non_default c) <-> In v (a_choice c) /\ v <> a_default c.
Proof.
  unfold non_default. rewrite filter_In. rewrite negb_true_iff, Z.eqb_neq. tauto.
Qed.

(* ------------------------------------------------------------------ what candidates() proposes *)

(* every cell that the disallow_adjacent offsets reach from (y, x) holds the default *)
Definition unblocked (c : acfg) (g : list (list Z)) (y x : Z) : Prop :=
  forall dy dx, In (dy, dx) (a_disallow c) -> in_grid c (y + dy) (x + dx) ->
                cell g (y + dy) (x + dx) = Some (a_default c).

Lemma adj_blocked_spec c g y x : forall ds acc s b s',
  adj_blocked c g y x ds acc s = Done b s' ->
  s' = s /\
  (b = false -> acc = false /\
                forall dy dx, In (dy, dx) ds -> in_grid c (y + dy) (x + dx) ->
                              cell g (y + dy) (x + dx) = Some (a_default c)).
Proof.
  induction ds as [|[dy dx] t IH]; intros acc s b s' H; cbn [adj_blocked] in H.
  - apply retR_Done in H. destruct H; subst. split; [reflexivity|]. intros ->. split; [reflexivity|]. intros ? ? [].
  - destruct ((0 <=? y + dy) && (y + dy <? a_height c) && (0 <=? x + dx) && (x + dx <? a_width c)) eqn:E.
    + inv_do H. apply cellR_Done in Hd. destruct Hd as [Hc ->].
      apply IH in H. destruct H as [-> H]. split; [reflexivity|]. intros Hb. specialize (H Hb).
      destruct H as [Hacc Ht]. destruct (negb (a =? a_default c)) eqn:En; [discriminate|]. b2p. rewrite En in Hc.
      split; [exact Hacc|]. intros dy' dx' [E'|Hin] Hg; [inversion E'; subst; exact Hc|apply Ht; assumption].
    + apply IH in H. destruct H as [-> H]. split; [reflexivity|]. intros Hb. specialize (H Hb).
      destruct H as [Hacc Ht]. split; [exact Hacc|].
      intros dy' dx' [E'|Hin] Hg; [|apply Ht; assumption]. inversion E'; subst. exfalso.
      unfold in_grid in Hg.
      assert ((0 <=? y + dy') && (y + dy' <? a_height c) && (0 <=? x + dx') && (x + dx' <? a_width c) = true).
      { rewrite !andb_true_iff. repeat split; try (apply Z.leb_le; lia); apply Z.ltb_lt; lia. }
      congruence.
Qed.

Inductive set_upd (c : acfg) (g : list (list Z)) (y x : Z) : list (Z * Z * Z) -> Prop :=
  | su_plain v cur :
      a_symmetry c = false -> In v (a_choice c) -> cell g y x = Some cur -> v <> cur ->
      (v <> a_default c -> unblocked c g y x) ->
      set_upd c g y x [(y, x, v)]
  | su_reset cur :
      a_symmetry c = true -> cell g y x = Some cur -> cur <> a_default c ->
      set_upd c g y x [(y, x, a_default c); (a_height c - 1 - y, a_width c - 1 - x, a_default c)]
  | su_pair v v2 :
      a_symmetry c = true -> cell g y x = Some (a_default c) ->
      In v (non_default c) -> In v2 (non_default c) -> unblocked c g y x ->
      ~ In (a_height c - 1 - y - y, a_width c - 1 - x - x) (a_disallow c) ->
      set_upd c g y x [(y, x, v); (a_height c - 1 - y, a_width c - 1 - x, v2)]
  | su_change v cur :
      a_symmetry c = true -> cell g y x = Some cur -> cur <> a_default c ->
      In v (non_default c) -> v <> cur -> unblocked c g y x ->
      set_upd c g y x [(y, x, v)].

Ltac bindD H a s1 H1 := apply bindR_Done in H; destruct H as (a & s1 & H1 & H).
Ltac retD H := apply retR_Done in H; destruct H as [<- _].

Lemma set_candidates_cell_spec c g y x s us s' :
  set_candidates_cell c g y x s = Done us s' ->
  forall u, In u us -> exists l, u = UCells l /\ set_upd c g y x l.
Proof.
  unfold set_candidates_cell. intros H. bindD H b0 s1 Hb.
  apply adj_blocked_spec in Hb. destruct Hb as [-> Hb0].
  assert (Hunb : b0 = false -> unblocked c g y x).
  { intros E. destruct (Hb0 E) as [_ Hu]. exact Hu. }
  destruct (a_symmetry c) eqn:Esym.
  - (* symmetry *)
    bindD H v0 s1 Hv0. apply cellR_Done in Hv0. destruct Hv0 as [Hv0 ->].
    set (y2 := a_height c - 1 - y) in *. set (x2 := a_width c - 1 - x) in *.
    assert (Hreset : forall u, In u (if negb (v0 =? a_default c)
                                     then [UCells [(y, x, a_default c); (y2, x2, a_default c)]] else []) ->
                               exists l, u = UCells l /\ set_upd c g y x l).
    { intros u Hu. destruct (negb (v0 =? a_default c)) eqn:E0; [|destruct Hu].
      destruct Hu as [<-|[]]. b2p. eexists; split; [reflexivity|]. eapply su_reset; eauto. }
    destruct (mem_pair (y2 - y, x2 - x) (a_disallow c)) eqn:Emem.
    + cbn [negb] in H. retD H. exact Hreset.
    + assert (Hnm : ~ In (y2 - y, x2 - x) (a_disallow c)).
      { intros Hin. apply mem_pair_true in Hin. congruence. }
      destruct b0; cbn [negb] in H.
      * retD H. exact Hreset.
      * specialize (Hunb eq_refl).
        bindD H v0' s1 Hv0'. apply cellR_Done in Hv0'. destruct Hv0' as [Hv0' ->].
        assert (v0' = v0) by congruence. subst v0'.
        destruct (v0 =? a_default c) eqn:E0.
        -- bindD H rest s1 Hrest. retD H.
           intros u Hu. apply in_app_or in Hu. destruct Hu as [Hu|Hu]; [apply Hreset; exact Hu|].
           b2p.
           destruct (concat_mapR_in _ _ _ _ _ _ Hrest Hu) as (v & sa & sb & us' & Hv & Hf & Hin).
           bindD Hf w2 s2 Hw2. apply choice_in in Hw2.
           bindD Hf c1 s3 Hc1. apply cellR_Done in Hc1. destruct Hc1 as [Hc1 ->].
           assert (Eu : u = UCells [(y, x, v); (y2, x2, w2)]).
           { destruct (negb (c1 =? v)).
             - retD Hf. destruct Hin as [<-|[]]. reflexivity.
             - bindD Hf c2 s4 Hc2. destruct (negb (c2 =? w2)).
               + retD Hf. destruct Hin as [<-|[]]. reflexivity.
               + retD Hf. destruct Hin. }
           subst u. eexists; split; [reflexivity|]. apply su_pair; auto. congruence.
        -- bindD H rest s1 Hrest. retD H.
           intros u Hu. apply in_app_or in Hu. destruct Hu as [Hu|Hu]; [apply Hreset; exact Hu|].
           b2p.
           destruct (concat_mapR_in _ _ _ _ _ _ Hrest Hu) as (v & sa & sb & us' & Hv & Hf & Hin).
           bindD Hf c1 s3 Hc1. apply cellR_Done in Hc1. destruct Hc1 as [Hc1 ->].
           assert (c1 = v0) by congruence. subst c1.
           destruct (negb (v =? v0)) eqn:Ev.
           ++ retD Hf. destruct Hin as [<-|[]]. b2p.
              eexists; split; [reflexivity|]. eapply su_change; eauto.
           ++ retD Hf. destruct Hin.
  - (* no symmetry *)
    intros u Hu.
    destruct (concat_mapR_in _ _ _ _ _ _ H Hu) as (v & sa & sb & us' & Hv & Hf & Hin).
    destruct (b0 && negb (v =? a_default c)) eqn:Eb.
    + retD Hf. destruct Hin.
    + bindD Hf c1 s3 Hc1. apply cellR_Done in Hc1. destruct Hc1 as [Hc1 ->].
      destruct (negb (v =? c1)) eqn:Ev.
      * retD Hf. destruct Hin as [<-|[]]. b2p.
        eexists; split; [reflexivity|]. eapply su_plain; eauto.
        intros Hnd. apply Hunb. destruct b0; [|reflexivity]. cbn [andb] in Eb. b2p. contradiction.
      * retD Hf. destruct Hin.
Qed.

Inductive move_upd (c : acfg) (g : list (list Z)) : list (Z * Z * Z) -> Prop :=
  | mu_plain y x y2 x2 v1 v2 :
      a_use_move c = true -> a_symmetry c = false -> in_grid c y x -> in_grid c y2 x2 ->
      cell g y x = Some v1 -> cell g y2 x2 = Some v2 ->
      move_upd c g [(y, x, v2); (y2, x2, v1)]
  | mu_sym y1 x1 y2 x2 v1 v2 v1b v2b :
      a_use_move c = true -> a_symmetry c = true -> in_grid c y1 x1 -> in_grid c y2 x2 ->
      (y1, x1) <> (y2, x2) ->
      (y1, x1) <> (a_height c - 1 - y1, a_width c - 1 - x1) ->
      (y1, x1) <> (a_height c - 1 - y2, a_width c - 1 - x2) ->
      cell g y1 x1 = Some v1 -> cell g y2 x2 = Some v2 ->
      cell g (a_height c - 1 - y1) (a_width c - 1 - x1) = Some v1b ->
      cell g (a_height c - 1 - y2) (a_width c - 1 - x2) = Some v2b ->
      move_upd c g [(y1, x1, v2); (y2, x2, v1);
                    (a_height c - 1 - y1, a_width c - 1 - x1, v2b);
                    (a_height c - 1 - y2, a_width c - 1 - x2, v1b)].

Lemma move_candidates_spec c g s us s' :
  move_candidates c g s = Done us s' ->
  forall u, In u us -> exists l, u = UCells l /\ move_upd c g l.
Proof.
  unfold move_candidates. destruct (a_use_move c) eqn:Emv.
  2:{ intros H. retD H. intros u []. }
  intros H u Hu.
  destruct (concat_mapR_in _ _ _ _ _ _ H Hu) as ([y x] & sa & sb & us1 & Hyx & Hf & Hin1).
  apply in_cells_of in Hyx.
  destruct (concat_mapR_in _ _ _ _ _ _ Hf Hin1) as (k & sc & sd & us2 & _ & Hg & Hin2).
  clear H Hf Hin1 Hu.
  destruct (a_symmetry c) eqn:Esym.
  - unfold move_sym_attempt in Hg.
    bindD Hg y2 s1 Hy2. apply randint_range in Hy2.
    bindD Hg x2 s2 Hx2. apply randint_range in Hx2.
    destruct (pair_eqb (y, x) (y2, x2)) eqn:E1; [retD Hg; destruct Hin2|].
    destruct (pair_eqb (y, x) (a_height c - 1 - y, a_width c - 1 - x)) eqn:E2; [retD Hg; destruct Hin2|].
    destruct (pair_eqb (y, x) (a_height c - 1 - y2, a_width c - 1 - x2)) eqn:E3; [retD Hg; destruct Hin2|].
    apply pair_eqb_false in E1, E2, E3.
    bindD Hg v1 s3 Hv1. apply cellR_Done in Hv1. destruct Hv1 as [Hv1 ->].
    bindD Hg v2 s4 Hv2. apply cellR_Done in Hv2. destruct Hv2 as [Hv2 ->].
    destruct (negb (v1 =? v2)); [|retD Hg; destruct Hin2].
    bindD Hg v2b s5 Hv2b. apply cellR_Done in Hv2b. destruct Hv2b as [Hv2b ->].
    bindD Hg v1b s6 Hv1b. apply cellR_Done in Hv1b. destruct Hv1b as [Hv1b ->].
    retD Hg. destruct Hin2 as [<-|[]].
    eexists; split; [reflexivity|]. eapply mu_sym; eauto. unfold in_grid; lia.
  - unfold move_attempt in Hg.
    bindD Hg y2 s1 Hy2. apply randint_range in Hy2.
    bindD Hg x2 s2 Hx2. apply randint_range in Hx2.
    destruct (pair_eqb (y, x) (y2, x2)) eqn:E1; [retD Hg; destruct Hin2|].
    bindD Hg v1 s3 Hv1. apply cellR_Done in Hv1. destruct Hv1 as [Hv1 ->].
    bindD Hg v2 s4 Hv2. apply cellR_Done in Hv2. destruct Hv2 as [Hv2 ->].
    destruct (negb (v1 =? v2)); [|retD Hg; destruct Hin2].
    retD Hg. destruct Hin2 as [<-|[]].
    eexists; split; [reflexivity|]. eapply mu_plain; eauto. unfold in_grid; lia.
Qed.

(* every candidate of ArrayBuilder2D is a move or a value-setting update of a grid cell *)
Definition array_upd (c : acfg) (g : list (list Z)) (l : list (Z * Z * Z)) : Prop :=
  move_upd c g l \/ exists y x, in_grid c y x /\ set_upd c g y x l.

Lemma array_candidates_spec c g s us s' :
  array_candidates c g s = Done us s' ->
  forall u, In u us -> exists l, u = UCells l /\ array_upd c g l.
Proof.
  unfold array_candidates. intros H. bindD H mv s1 Hmv. bindD H st s2 Hst. retD H.
  intros u Hu. apply in_app_or in Hu. destruct Hu as [Hu|Hu].
  - destruct (move_candidates_spec _ _ _ _ _ Hmv u Hu) as (l & -> & Hl). exists l. split; [reflexivity|left; exact Hl].
  - unfold set_candidates in Hst.
    destruct (concat_mapR_in _ _ _ _ _ _ Hst Hu) as ([y x] & sa & sb & us1 & Hyx & Hf & Hin1).
    apply in_cells_of in Hyx.
    destruct (set_candidates_cell_spec _ _ _ _ _ _ _ Hf u Hin1) as (l & -> & Hl).
    exists l. split; [reflexivity|right; exists y, x; auto].
Qed.

(* ------------------------------------------------------------------ locality inside a grid *)

Definition allowed (c : acfg) (v : Z) : Prop := In v (a_choice c) \/ v = a_default c.

Lemma array_upd_values c g l : array_upd c g l ->
  forall y x v, In (y, x, v) l ->
    in_grid c y x /\
    (allowed c v \/ (a_use_move c = true /\ exists y2 x2, cell g y2 x2 = Some v)).
Proof.
  intros [Hm|(y0 & x0 & Hg & Hs)] y x v Hin.
  - inversion Hm; subst; cbn [In] in Hin.
    + destruct Hin as [E|[E|[]]]; inversion E; subst; (split; [assumption|right; split; [assumption|eauto]]).
    + assert (in_grid c (a_height c - 1 - y1) (a_width c - 1 - x1)) by (unfold in_grid in *; lia).
      assert (in_grid c (a_height c - 1 - y2) (a_width c - 1 - x2)) by (unfold in_grid in *; lia).
      destruct Hin as [E|[E|[E|[E|[]]]]]; inversion E; subst; (split; [assumption|right; split; [assumption|eauto]]).
  - assert (Hmir : in_grid c (a_height c - 1 - y0) (a_width c - 1 - x0)) by (unfold in_grid in *; lia).
    inversion Hs; subst; cbn [In] in Hin.
    + destruct Hin as [E|[]]; inversion E; subst. split; [assumption|left; left; assumption].
    + destruct Hin as [E|[E|[]]]; inversion E; subst; (split; [assumption|left; right; reflexivity]).
    + apply in_non_default in H1, H2.
      destruct Hin as [E|[E|[]]]; inversion E; subst; (split; [assumption|left; left; tauto]).
    + apply in_non_default in H2. destruct Hin as [E|[]]; inversion E; subst. split; [assumption|left; left; tauto].
Qed.

(* a grid neighbour: same shape; every cell keeps its value, or takes a value of the
   choice set (or the default), or -- for use_move -- a value that was in the grid;
   only cells named by the update (all inside height x width) can change *)
Definition grid_local (c : acfg) (g g' : list (list Z)) : Prop :=
  forall y x,
    match cell g y x with
    | None => cell g' y x = None
    | Some a => exists b, cell g' y x = Some b /\
                (b = a \/ (in_grid c y x /\
                           (allowed c b \/ (a_use_move c = true /\ exists y2 x2, cell g y2 x2 = Some b))))
    end.

Lemma array_upd_local c g l : array_upd c g l -> grid_local c g (apply_cells g l).
Proof.
  intros Hu y x. rewrite cell_apply_cells. destruct (cell g y x) as [a|]; cbn [option_map]; [|reflexivity].
  eexists; split; [reflexivity|].
  destruct (last_write_cases l y x a) as [E|(v & Hin & E)]; [left; exact E|].
  right. rewrite E. eapply array_upd_values; eauto.
Qed.

Lemma array_upd_length c g l : array_upd c g l -> (length l <= 4)%nat.
Proof.
  intros [Hm|(y0 & x0 & Hg & Hs)]; [inversion Hm|inversion Hs]; cbn [length]; lia.
Qed.

(* ------------------------------------------------------------------ nested patterns *)

Section PatInd.
  Variable Q : pat -> Prop.
  Hypothesis HB : forall b, Q (PB b).
  Hypothesis HC : forall z, Q (PConst z).
  Hypothesis HL : forall l, Forall Q l -> Q (PList l).
  Hypothesis HT : forall l, Forall Q l -> Q (PTuple l).
  Fixpoint pat_ind' (pt : pat) : Q pt :=
    match pt with
    | PB b => HB b
    | PConst z => HC z
    | PList l => HL l ((fix go (l : list pat) : Forall Q l :=
                         match l with [] => Forall_nil _ | x :: t => Forall_cons _ (pat_ind' x) (go t) end) l)
    | PTuple l => HT l ((fix go (l : list pat) : Forall Q l :=
                         match l with [] => Forall_nil _ | x :: t => Forall_cons _ (pat_ind' x) (go t) end) l)
    end.
End PatInd.

Inductive shape : pat -> prob -> Prop :=
  | sh_choice ch d a : shape (PB (BChoice ch d)) (VAtom a)
  | sh_array c g : shape (PB (BArray c)) (VGrid g)
  | sh_const z : shape (PConst z) (VAtom z)
  | sh_list ps l : Forall2 shape ps l -> shape (PList ps) (VList l)
  | sh_tuple ps l : Forall2 shape ps l -> shape (PTuple ps) (VTuple l).

(* q is p with exactly one builder position rewritten by one update of that builder *)
Inductive nb : pat -> prob -> prob -> Prop :=
  | nb_choice ch d a v : In v ch -> v <> a -> nb (PB (BChoice ch d)) (VAtom a) (VAtom v)
  | nb_array c g l : array_upd c g l -> nb (PB (BArray c)) (VGrid g) (VGrid (apply_cells g l))
  | nb_list ps l1 p q l2 pk :
      nth_error ps (length l1) = Some pk -> nb pk p q ->
      nb (PList ps) (VList (l1 ++ p :: l2)) (VList (l1 ++ q :: l2))
  | nb_tuple ps l1 p q l2 pk :
      nth_error ps (length l1) = Some pk -> nb pk p q ->
      nb (PTuple ps) (VTuple (l1 ++ p :: l2)) (VTuple (l1 ++ q :: l2)).

Fixpoint vars_list (pos : list nat) (ps : list pat) (i : nat) : list (list nat * builder) :=
  match ps with
  | [] => []
  | p :: t => variables_at p (pos ++ [i]) ++ vars_list pos t (S i)
  end.

Lemma variables_at_list ps pos : variables_at (PList ps) pos = vars_list pos ps 0.
Proof.
  cbn [variables_at]. generalize 0%nat. induction ps as [|p t IH]; intros k; cbn [vars_list]; [reflexivity|].
  f_equal. apply IH.
Qed.

Lemma variables_at_tuple ps pos : variables_at (PTuple ps) pos = vars_list pos ps 0.
Proof.
  cbn [variables_at]. generalize 0%nat. induction ps as [|p t IH]; intros k; cbn [vars_list]; [reflexivity|].
  f_equal. apply IH.
Qed.

Definition prefix (base : list nat) (e : list nat * builder) : list nat * builder := (base ++ fst e, snd e).

Lemma variables_at_prefix pt : forall base, variables_at pt base = map (prefix base) (variables_at pt []).
Proof.
  induction pt as [b|z|ps IH|ps IH] using pat_ind'; intros base.
  - cbn. unfold prefix; cbn. rewrite app_nil_r. reflexivity.
  - reflexivity.
  - rewrite !variables_at_list. generalize 0%nat.
    induction IH as [|p t Hp Ht IHt]; intros k; cbn [vars_list]; [reflexivity|].
    rewrite map_app, <- IHt. f_equal.
    rewrite (Hp (base ++ [k])), (Hp ([] ++ [k])), map_map. apply map_ext.
    intros [pos b]. unfold prefix; cbn [fst snd app]. rewrite <- app_assoc. reflexivity.
  - rewrite !variables_at_tuple. generalize 0%nat.
    induction IH as [|p t Hp Ht IHt]; intros k; cbn [vars_list]; [reflexivity|].
    rewrite map_app, <- IHt. f_equal.
    rewrite (Hp (base ++ [k])), (Hp ([] ++ [k])), map_map. apply map_ext.
    intros [pos b]. unfold prefix; cbn [fst snd app]. rewrite <- app_assoc. reflexivity.
Qed.

Lemma in_vars_list ps : forall k pos b,
  In (pos, b) (vars_list [] ps k) ->
  exists j pk pos', nth_error ps j = Some pk /\ pos = (k + j)%nat :: pos' /\ In (pos', b) (variables_at pk []).
Proof.
  induction ps as [|p t IH]; intros k pos b H; cbn [vars_list] in H; [destruct H|].
  apply in_app_or in H. destruct H as [H|H].
  - rewrite variables_at_prefix in H. apply in_map_iff in H. destruct H as ([pos' b'] & E & Hin).
    unfold prefix in E; cbn [fst snd app] in E. inversion E; subst.
    exists 0%nat, p, pos'. rewrite Nat.add_0_r. auto.
  - apply IH in H. destruct H as (j & pk & pos' & Hn & -> & Hin).
    exists (S j), pk, pos'. split; [exact Hn|]. split; [f_equal; lia|exact Hin].
Qed.

Lemma update_elems_id f : forall ps l k i, (i < k)%nat -> length ps = length l -> update_elems f ps l k i = Ok l.
Proof.
  induction ps as [|p t IH]; intros l k i Hk Hlen; destruct l as [|q l']; try discriminate; cbn [update_elems]; [reflexivity|].
  assert (E : Nat.eqb k i = false) by (apply Nat.eqb_neq; lia). rewrite E. cbn [bind].
  rewrite IH by (cbn [length] in Hlen; lia). reflexivity.
Qed.

Lemma update_elems_at f : forall ps l k j pk r,
  length ps = length l -> nth_error ps j = Some pk -> update_elems f ps l k (k + j) = Ok r ->
  exists l1 q0 l2 q0', l = l1 ++ q0 :: l2 /\ length l1 = j /\ f pk q0 = Ok q0' /\ r = l1 ++ q0' :: l2.
Proof.
  induction ps as [|p t IH]; intros l k j pk r Hlen Hn H; [destruct j; discriminate|].
  destruct l as [|q l']; [discriminate|]. cbn [update_elems] in H. cbn [length] in Hlen.
  destruct j as [|j].
  - cbn [nth_error] in Hn. inversion Hn; subst pk. rewrite Nat.add_0_r, Nat.eqb_refl in H.
    destruct (f p q) as [q0'|e] eqn:Ef; [|discriminate]. cbn [bind] in H.
    rewrite update_elems_id in H by lia. cbn [bind] in H. inversion H; subst.
    exists [], q, l', q0'. auto.
  - cbn [nth_error] in Hn.
    assert (E : Nat.eqb k (k + S j) = false) by (apply Nat.eqb_neq; lia). rewrite E in H. cbn [bind] in H.
    replace (k + S j)%nat with (S k + j)%nat in H by lia.
    destruct (update_elems f t l' (S k) (S k + j)) as [r'|e] eqn:Er; [|discriminate].
    cbn [bind] in H. inversion H; subst.
    destruct (IH l' (S k) j pk r' ltac:(lia) Hn Er) as (l1 & q0 & l2 & q0' & -> & Hl1 & Hf & ->).
    exists (q :: l1), q0, l2, q0'. cbn [length app]. auto.
Qed.

Lemma Forall2_len {A B} (Rel : A -> B -> Prop) l1 l2 : Forall2 Rel l1 l2 -> length l1 = length l2.
Proof. induction 1; cbn [length]; congruence. Qed.

Lemma Forall2_nth_error {A B} (Rel : A -> B -> Prop) l1 l2 : Forall2 Rel l1 l2 ->
  forall j a, nth_error l1 j = Some a -> exists b, nth_error l2 j = Some b /\ Rel a b.
Proof.
  induction 1 as [|x y t1 t2 Hxy Ht IH]; intros j a Hn; [destruct j; discriminate|].
  destruct j as [|j]; cbn [nth_error] in *.
  - inversion Hn; subst. eauto.
  - apply IH; exact Hn.
Qed.

(* the path lemma: rewriting the position of a variable by an update that is local for
   its builder gives a neighbour of the whole problem *)
Lemma with_update_nb pt : forall p pos b u q,
  shape pt p -> In (pos, b) (variables_at pt []) -> with_update pt p pos u = Ok q ->
  exists sub, get p pos = Ok sub /\ exists sub', b_copy_with_update b sub u = Ok sub' /\
              (nb (PB b) sub sub' -> nb pt p q).
Proof.
  induction pt as [b0|z|ps IH|ps IH] using pat_ind'; intros p pos b u q Hs Hin Hw.
  - cbn in Hin. destruct Hin as [E|[]]. inversion E; subst. cbn in Hw.
    exists p. split; [reflexivity|]. exists q. auto.
  - destruct Hin.
  - rewrite variables_at_list in Hin. apply in_vars_list in Hin.
    destruct Hin as (j & pk & pos' & Hn & -> & Hin). cbn [Nat.add] in *.
    inversion Hs as [| | |ps' l HF|]; subst.
    cbn [with_update] in Hw.
    destruct (update_elems (fun pk q => with_update pk q pos' u) ps l 0 j) as [r|e] eqn:Er; [|discriminate].
    cbn [rmap] in Hw. inversion Hw; subst q.
    pose proof (Forall2_len _ _ _ HF) as Hlen.
    destruct (update_elems_at _ ps l 0 j pk r Hlen Hn Er) as (l1 & q0 & l2 & q0' & -> & Hl1 & Hf & ->).
    destruct (Forall2_nth_error _ _ _ HF j pk Hn) as (q0x & Hq0x & Hsh).
    assert (q0x = q0). { rewrite <- Hl1 in Hq0x. rewrite nth_error_app2, Nat.sub_diag in Hq0x by lia. inversion Hq0x; reflexivity. }
    subst q0x.
    rewrite Forall_forall in IH. specialize (IH pk (nth_error_In _ _ Hn) q0 pos' b u q0' Hsh Hin Hf).
    destruct IH as (sub & Hget & sub' & Hcp & Hnb).
    exists sub. split.
    + cbn [get]. rewrite <- Hl1. rewrite nth_error_app2, Nat.sub_diag by lia. exact Hget.
    + exists sub'. split; [exact Hcp|]. intros Hb. apply nb_list with (pk := pk); [rewrite Hl1; exact Hn|auto].
  - rewrite variables_at_tuple in Hin. apply in_vars_list in Hin.
    destruct Hin as (j & pk & pos' & Hn & -> & Hin). cbn [Nat.add] in *.
    inversion Hs as [| | | |ps' l HF]; subst.
    cbn [with_update] in Hw.
    destruct (update_elems (fun pk q => with_update pk q pos' u) ps l 0 j) as [r|e] eqn:Er; [|discriminate].
    cbn [rmap] in Hw. inversion Hw; subst q.
    pose proof (Forall2_len _ _ _ HF) as Hlen.
    destruct (update_elems_at _ ps l 0 j pk r Hlen Hn Er) as (l1 & q0 & l2 & q0' & -> & Hl1 & Hf & ->).
    destruct (Forall2_nth_error _ _ _ HF j pk Hn) as (q0x & Hq0x & Hsh).
    assert (q0x = q0). { rewrite <- Hl1 in Hq0x. rewrite nth_error_app2, Nat.sub_diag in Hq0x by lia. inversion Hq0x; reflexivity. }
    subst q0x.
    rewrite Forall_forall in IH. specialize (IH pk (nth_error_In _ _ Hn) q0 pos' b u q0' Hsh Hin Hf).
    destruct IH as (sub & Hget & sub' & Hcp & Hnb).
    exists sub. split.
    + cbn [get]. rewrite <- Hl1. rewrite nth_error_app2, Nat.sub_diag by lia. exact Hget.
    + exists sub'. split; [exact Hcp|]. intros Hb. apply nb_tuple with (pk := pk); [rewrite Hl1; exact Hn|auto].
Qed.

Lemma apply_all_in pt p : forall cs r q,
  apply_all pt p cs = Ok r -> In q r ->
  exists pos b u, In (pos, b, u) cs /\ with_update pt p pos u = Ok q.
Proof.
  induction cs as [|[[pos b] u] t IH]; intros r q H Hq; cbn [apply_all] in H.
  - inversion H; subst. destruct Hq.
  - destruct (with_update pt p pos u) as [q0|e] eqn:Ew; [|discriminate]. cbn [bind] in H.
    destruct (apply_all pt p t) as [r'|e] eqn:Er; [|discriminate]. cbn [bind] in H. inversion H; subst.
    destruct Hq as [<-|Hq].
    + exists pos, b, u. split; [left; reflexivity|exact Ew].
    + destruct (IH r' q eq_refl Hq) as (pos' & b' & u' & Hin & Hw). exists pos', b', u'. split; [right; exact Hin|exact Hw].
Qed.

Lemma all_candidates_in pt p s cs s' pos b u :
  all_candidates pt p s = Done cs s' -> In (pos, b, u) cs ->
  In (pos, b) (variables pt) /\
  exists sub s1 s2 us, get p pos = Ok sub /\ b_candidates b sub s1 = Done us s2 /\ In u us.
Proof.
  unfold all_candidates. intros H Hin.
  destruct (concat_mapR_in _ _ _ _ _ _ H Hin) as ([pos0 b0] & sa & sb & us1 & Hv & Hf & Hin1).
  destruct (get p pos0) as [sub|e] eqn:Eg; [|discriminate].
  bindD Hf us s1 Hus. retD Hf. apply in_map_iff in Hin1. destruct Hin1 as (u0 & E & Hu0).
  inversion E; subst. split; [exact Hv|]. exists sub, sa, s1, us. auto.
Qed.

Lemma b_candidates_nb b sub s us s' u sub' :
  b_candidates b sub s = Done us s' -> In u us -> b_copy_with_update b sub u = Ok sub' -> nb (PB b) sub sub'.
Proof.
  destruct b as [ch d|c]; destruct sub as [a|g|l|l]; cbn [b_candidates]; try discriminate; intros H Hu Hc.
  - retD H. apply in_map_iff in Hu. destruct Hu as (v & <- & Hv). cbn in Hc. inversion Hc; subst.
    unfold choice_candidates in Hv. apply filter_In in Hv. destruct Hv as [Hv Hne]. b2p.
    apply nb_choice; assumption.
  - destruct (array_candidates_spec _ _ _ _ _ H u Hu) as (l & -> & Hl). cbn in Hc. inversion Hc; subst.
    apply nb_array; exact Hl.
Qed.

(* every neighbour produced by the generator differs from the current problem at exactly
   one builder position, by one update proposed by that builder *)
Lemma neighbours_nb pt p s qs s' q :
  shape pt p -> neighbours pt p s = Done qs s' -> In q qs -> nb pt p q.
Proof.
  intros Hs H Hq. unfold neighbours in H.
  bindD H cands s1 Hc. bindD H sh s2 Hsh.
  destruct (apply_all pt p sh) as [l|e] eqn:Ea; [|discriminate]. retD H.
  destruct (apply_all_in _ _ _ _ _ Ea Hq) as (pos & b & u & Hin & Hw).
  apply shuffle_incl in Hsh. destruct Hsh as [Hincl _]. apply Hincl in Hin.
  destruct (all_candidates_in _ _ _ _ _ _ _ _ Hc Hin) as (Hv & sub & sa & sb & us & Hget & Hcand & Hu).
  destruct (with_update_nb pt p pos b u q Hs Hv Hw) as (sub0 & Hget0 & sub' & Hcp & Hnb).
  assert (sub0 = sub) by congruence. subst sub0.
  apply Hnb. eapply b_candidates_nb; eauto.
Qed.

Lemma shape_initial pt : shape pt (initial_of pt).
Proof.
  induction pt as [b|z|ps IH|ps IH] using pat_ind'.
  - destruct b; constructor.
  - constructor.
  - cbn [initial_of]. constructor. induction IH; cbn [map]; constructor; auto.
  - cbn [initial_of]. constructor. induction IH; cbn [map]; constructor; auto.
Qed.

Lemma Forall2_replace pk (ps : list pat) l1 p q l2 :
  nth_error ps (length l1) = Some pk -> Forall2 shape ps (l1 ++ p :: l2) ->
  (shape pk p -> shape pk q) -> Forall2 shape ps (l1 ++ q :: l2).
Proof.
  revert ps. induction l1 as [|x l1 IH]; intros ps Hn HF Hpq; cbn [app length] in *.
  - inversion HF; subst. cbn in Hn. inversion Hn; subst. constructor; auto.
  - inversion HF; subst. cbn [nth_error] in Hn. constructor; [assumption|]. apply IH; assumption.
Qed.

Lemma nb_shape pt p q : nb pt p q -> shape pt p -> shape pt q.
Proof.
  induction 1 as [ch d a v Hv Hne|c g l Hl|ps l1 p q l2 pk Hn Hnb IH|ps l1 p q l2 pk Hn Hnb IH]; intros Hs.
  - constructor.
  - constructor.
  - inversion Hs; subst. constructor. eapply Forall2_replace; eauto.
  - inversion Hs; subst. constructor. eapply Forall2_replace; eauto.
Qed.

(* ------------------------------------------------------------------ symmetry and adjacency invariants *)

Definition full (c : acfg) (g : list (list Z)) : Prop :=
  forall y x, in_grid c y x -> exists v, cell g y x = Some v.

(* the cell (y, x) holds a non-default value *)
Definition ndv (c : acfg) (g : list (list Z)) (y x : Z) : Prop :=
  exists v, cell g y x = Some v /\ v <> a_default c.

(* point symmetry of the set of non-default cells *)
Definition sym_inv (c : acfg) (g : list (list Z)) : Prop :=
  forall y x, in_grid c y x -> (ndv c g y x <-> ndv c g (a_height c - 1 - y) (a_width c - 1 - x)).

(* no two non-default cells at a forbidden offset *)
Definition adj_inv (c : acfg) (g : list (list Z)) : Prop :=
  forall y x dy dx, in_grid c y x -> In (dy, dx) (a_disallow c) -> in_grid c (y + dy) (x + dx) ->
                    ndv c g y x -> ~ ndv c g (y + dy) (x + dx).

Lemma ndv_some c g y x a : cell g y x = Some a -> (ndv c g y x <-> a <> a_default c).
Proof.
  intros H. unfold ndv. rewrite H. split.
  - intros (v & E & Hv). inversion E; subst; exact Hv.
  - intros Hv. exists a. auto.
Qed.

Lemma ndv_apply c g l y x a :
  cell g y x = Some a -> (ndv c (apply_cells g l) y x <-> last_write l y x a <> a_default c).
Proof. intros H. apply ndv_some. rewrite cell_apply_cells, H. reflexivity. Qed.

Lemma full_apply c g l : full c g -> full c (apply_cells g l).
Proof.
  intros Hf y x Hin. destruct (Hf y x Hin) as (v & Hv). rewrite cell_apply_cells, Hv. cbn. eauto.
Qed.

Definition at_cell (y x y0 x0 : Z) : bool := (y =? y0) && (x =? x0).

Lemma at_cell_spec y x y0 x0 : reflect (y = y0 /\ x = x0) (at_cell y x y0 x0).
Proof.
  unfold at_cell. destruct (Z.eqb_spec y y0), (Z.eqb_spec x x0); cbn; constructor; lia.
Qed.

Lemma at_cell_mirror1 h w y x y0 x0 : at_cell (h - 1 - y) (w - 1 - x) (h - 1 - y0) (w - 1 - x0) = at_cell y x y0 x0.
Proof. destruct (at_cell_spec (h - 1 - y) (w - 1 - x) (h - 1 - y0) (w - 1 - x0)), (at_cell_spec y x y0 x0); try reflexivity; lia. Qed.

Lemma at_cell_mirror2 h w y x y0 x0 : at_cell (h - 1 - y) (w - 1 - x) y0 x0 = at_cell y x (h - 1 - y0) (w - 1 - x0).
Proof. destruct (at_cell_spec (h - 1 - y) (w - 1 - x) y0 x0), (at_cell_spec y x (h - 1 - y0) (w - 1 - x0)); try reflexivity; lia. Qed.

Lemma last_write_1 y1 x1 v1 y x a :
  last_write [(y1, x1, v1)] y x a = if at_cell y x y1 x1 then v1 else a.
Proof. reflexivity. Qed.

Lemma last_write_2 y1 x1 v1 y2 x2 v2 y x a :
  last_write [(y1, x1, v1); (y2, x2, v2)] y x a =
  if at_cell y x y2 x2 then v2 else if at_cell y x y1 x1 then v1 else a.
Proof. reflexivity. Qed.

Lemma last_write_4 y1 x1 v1 y2 x2 v2 y3 x3 v3 y4 x4 v4 y x a :
  last_write [(y1, x1, v1); (y2, x2, v2); (y3, x3, v3); (y4, x4, v4)] y x a =
  if at_cell y x y4 x4 then v4 else if at_cell y x y3 x3 then v3 else
  if at_cell y x y2 x2 then v2 else if at_cell y x y1 x1 then v1 else a.
Proof. reflexivity. Qed.

Lemma pair_neq (a b c d : Z) : (a, b) <> (c, d) -> a <> c \/ b <> d.
Proof. intros H. destruct (Z.eq_dec a c), (Z.eq_dec b d); try lia. subst. exfalso. apply H. reflexivity. Qed.

Lemma mirror_in_grid c y x : in_grid c y x -> in_grid c (a_height c - 1 - y) (a_width c - 1 - x).
Proof. unfold in_grid; lia. Qed.

(* every update ArrayBuilder2D proposes with symmetry=True keeps the point symmetry *)
Lemma symmetry_kept_upd c g l :
  a_symmetry c = true -> full c g -> sym_inv c g -> array_upd c g l -> sym_inv c (apply_cells g l).
Proof.
  intros Hsym Hfull Hinv Hu y x Hin.
  pose proof (mirror_in_grid c y x Hin) as Hin'.
  destruct (Hfull y x Hin) as (a & Ha). destruct (Hfull _ _ Hin') as (a' & Ha').
  rewrite (ndv_apply c g l y x a Ha), (ndv_apply c g l _ _ a' Ha').
  assert (Haa : a <> a_default c <-> a' <> a_default c).
  { rewrite <- (ndv_some c g y x a Ha), <- (ndv_some c g _ _ a' Ha'). apply Hinv; exact Hin. }
  set (h := a_height c) in *. set (w := a_width c) in *.
  destruct Hu as [Hm|(y0 & x0 & Hg0 & Hs)].
  - inversion Hm; subst; [congruence|].
    rename H1 into Hg1, H2 into Hg2, H3 into N12, H4 into N11b, H5 into N12b,
           H6 into C1, H7 into C2, H8 into C1b, H9 into C2b.
    fold h w in N11b, N12b, C1b, C2b |- *.
    apply pair_neq in N12, N11b, N12b.
    assert (S1 : v1 <> a_default c <-> v1b <> a_default c).
    { rewrite <- (ndv_some c g _ _ _ C1), <- (ndv_some c g _ _ _ C1b). apply Hinv; exact Hg1. }
    assert (S2 : v2 <> a_default c <-> v2b <> a_default c).
    { rewrite <- (ndv_some c g _ _ _ C2), <- (ndv_some c g _ _ _ C2b). apply Hinv; exact Hg2. }
    rewrite !last_write_4.
    rewrite !at_cell_mirror1, !at_cell_mirror2.
    replace (h - 1 - (h - 1 - y2)) with y2 by lia. replace (w - 1 - (w - 1 - x2)) with x2 by lia.
    replace (h - 1 - (h - 1 - y1)) with y1 by lia. replace (w - 1 - (w - 1 - x1)) with x1 by lia.
    destruct (at_cell_spec y x (h - 1 - y2) (w - 1 - x2)) as [T2b|T2b];
    destruct (at_cell_spec y x (h - 1 - y1) (w - 1 - x1)) as [T1b|T1b];
    destruct (at_cell_spec y x y2 x2) as [T2|T2];
    destruct (at_cell_spec y x y1 x1) as [T1|T1]; try tauto; exfalso; clear - T2b T1b T2 T1 N12 N11b N12b; lia.
  - inversion Hs; subst; try congruence.
    + (* reset *)
      fold h w. rewrite !last_write_2, !at_cell_mirror1, !at_cell_mirror2.
      destruct (at_cell_spec y x (h - 1 - y0) (w - 1 - x0)); destruct (at_cell_spec y x y0 x0); tauto.
    + (* pair *)
      fold h w. apply in_non_default in H1, H2.
      rewrite !last_write_2, !at_cell_mirror1, !at_cell_mirror2.
      destruct (at_cell_spec y x (h - 1 - y0) (w - 1 - x0)); destruct (at_cell_spec y x y0 x0); tauto.
    + (* change of a non-default value *)
      apply in_non_default in H2.
      rewrite !last_write_1, at_cell_mirror2.
      destruct (at_cell_spec y x y0 x0) as [[-> ->]|T1].
      * assert (a = cur) by congruence. subst a.
        destruct (at_cell_spec y0 x0 (h - 1 - y0) (w - 1 - x0)); tauto.
      * destruct (at_cell_spec y x (h - 1 - y0) (w - 1 - x0)) as [[E1 E2]|T2]; [|tauto].
        assert (Hc' : cell g (h - 1 - y) (w - 1 - x) = Some cur).
        { replace (h - 1 - y) with y0 by lia. replace (w - 1 - x) with x0 by lia. assumption. }
        assert (a' = cur) by congruence. subst a'. tauto.
Qed.

(* if an update creates no new non-default cell, the adjacency invariant survives *)
Lemma adj_inv_shrink c g g' :
  (forall y x, in_grid c y x -> ndv c g' y x -> ndv c g y x) -> adj_inv c g -> adj_inv c g'.
Proof.
  intros Hsub Hadj y x dy dx Hin Hd Hin2 Hn Hn2.
  apply (Hadj y x dy dx Hin Hd Hin2 (Hsub _ _ Hin Hn)). apply Hsub; assumption.
Qed.

(* every value-setting update ArrayBuilder2D proposes keeps the disallow_adjacent
   invariant, provided the offset list is symmetric and does not contain (0, 0)
   (true for disallow_adjacent=True) and -- with symmetry=True -- the grid is
   point symmetric *)
Lemma adjacency_kept_upd c g y0 x0 l :
  (forall dy dx, In (dy, dx) (a_disallow c) -> In (- dy, - dx) (a_disallow c)) ->
  ~ In (0, 0) (a_disallow c) ->
  full c g -> (a_symmetry c = true -> sym_inv c g) -> adj_inv c g ->
  in_grid c y0 x0 -> set_upd c g y0 x0 l -> adj_inv c (apply_cells g l).
Proof.
  intros Dsym D0 Hfull Hsyminv Hadj Hg0 Hs.
  assert (Dnz : forall dy dx, In (dy, dx) (a_disallow c) -> dy <> 0 \/ dx <> 0).
  { intros dy dx Hd. destruct (Z.eq_dec dy 0), (Z.eq_dec dx 0); try lia. subst. contradiction. }
  inversion Hs; subst.
  - (* plain: one cell set to v *)
    intros y x dy dx Hin Hd Hin2.
    destruct (Hfull y x Hin) as (a & Ha). destruct (Hfull _ _ Hin2) as (a2 & Ha2).
    rewrite (ndv_apply c g _ y x a Ha), (ndv_apply c g _ _ _ a2 Ha2), !last_write_1.
    pose proof (Dnz dy dx Hd) as Hnz.
    destruct (at_cell_spec y x y0 x0) as [[-> ->]|T1].
    + destruct (at_cell_spec (y0 + dy) (x0 + dx) y0 x0) as [T|_]; [lia|].
      intros Hv. specialize (H3 Hv dy dx Hd Hin2). congruence.
    + destruct (at_cell_spec (y + dy) (x + dx) y0 x0) as [[E1 E2]|T2].
      * intros Hna Hv. specialize (H3 Hv (- dy) (- dx) (Dsym _ _ Hd)).
        replace (y0 + - dy) with y in H3 by lia. replace (x0 + - dx) with x in H3 by lia.
        specialize (H3 Hin). congruence.
      * rewrite <- (ndv_some c g y x a Ha), <- (ndv_some c g _ _ a2 Ha2). apply Hadj; assumption.
  - (* reset to the default: nothing new *)
    eapply adj_inv_shrink; [|exact Hadj]. intros y x Hin.
    destruct (Hfull y x Hin) as (a & Ha).
    rewrite (ndv_apply c g _ y x a Ha), (ndv_some c g y x a Ha), last_write_2.
    destruct (at_cell y x (a_height c - 1 - y0) (a_width c - 1 - x0)); [congruence|].
    destruct (at_cell y x y0 x0); [congruence|auto].
  - (* pair: the cell and its mirror image become non-default *)
    specialize (Hsyminv H). apply in_non_default in H1, H2.
    set (h := a_height c) in *. set (w := a_width c) in *.
    pose proof (mirror_in_grid c y0 x0 Hg0) as Hg0'. fold h w in Hg0'.
    intros y x dy dx Hin Hd Hin2.
    destruct (Hfull y x Hin) as (a & Ha). destruct (Hfull _ _ Hin2) as (a2 & Ha2).
    rewrite (ndv_apply c g _ y x a Ha), (ndv_apply c g _ _ _ a2 Ha2), !last_write_2.
    pose proof (Dnz dy dx Hd) as Hnz.
    pose proof (Dsym dy dx Hd) as Hd'.
    (* cells at an offset from (y0, x0) hold the default; so do their mirror images *)
    assert (U1 : forall ey ex, In (ey, ex) (a_disallow c) -> in_grid c (y0 + ey) (x0 + ex) ->
                               cell g (y0 + ey) (x0 + ex) = Some (a_default c)) by exact H3.
    assert (U2 : forall ey ex, In (ey, ex) (a_disallow c) -> in_grid c (h - 1 - y0 + ey) (w - 1 - x0 + ex) ->
                               forall b, cell g (h - 1 - y0 + ey) (w - 1 - x0 + ex) = Some b -> b = a_default c).
    { intros ey ex He Hing b Hb.
      assert (Hing' : in_grid c (y0 + - ey) (x0 + - ex)) by (unfold in_grid in *; fold h w in Hing |- *; lia).
      pose proof (U1 _ _ (Dsym _ _ He) Hing') as Hc.
      pose proof (Hsyminv _ _ Hing') as Hsy. fold h w in Hsy.
      replace (h - 1 - (y0 + - ey)) with (h - 1 - y0 + ey) in Hsy by lia.
      replace (w - 1 - (x0 + - ex)) with (w - 1 - x0 + ex) in Hsy by lia.
      rewrite (ndv_some c g _ _ _ Hc), (ndv_some c g _ _ _ Hb) in Hsy.
      destruct (Z.eq_dec b (a_default c)); [assumption|]. exfalso. tauto. }
    destruct (at_cell_spec y x (h - 1 - y0) (w - 1 - x0)) as [[-> ->]|T2].
    + (* (y, x) is the mirror cell *)
      intros _.
      destruct (at_cell_spec (h - 1 - y0 + dy) (w - 1 - x0 + dx) (h - 1 - y0) (w - 1 - x0)) as [T|_]; [lia|].
      destruct (at_cell_spec (h - 1 - y0 + dy) (w - 1 - x0 + dx) y0 x0) as [[E1 E2]|_].
      * exfalso. apply H4. replace (h - 1 - y0 - y0) with (- dy) by lia. replace (w - 1 - x0 - x0) with (- dx) by lia.
        exact Hd'.
      * intros Hn. apply Hn. exact (U2 dy dx Hd Hin2 a2 Ha2).
    + destruct (at_cell_spec y x y0 x0) as [[-> ->]|T1].
      * (* (y, x) is the cell itself *)
        intros _.
        destruct (at_cell_spec (y0 + dy) (x0 + dx) (h - 1 - y0) (w - 1 - x0)) as [[E1 E2]|_].
        -- exfalso. apply H4. replace (h - 1 - y0 - y0) with dy by lia. replace (w - 1 - x0 - x0) with dx by lia.
           exact Hd.
        -- destruct (at_cell_spec (y0 + dy) (x0 + dx) y0 x0) as [T|_]; [lia|].
           intros Hn. apply Hn. pose proof (U1 _ _ Hd Hin2). congruence.
      * (* an old non-default cell *)
        intros Hna.
        destruct (at_cell_spec (y + dy) (x + dx) (h - 1 - y0) (w - 1 - x0)) as [[E1 E2]|_].
        -- exfalso. apply Hna. apply (U2 (- dy) (- dx) Hd').
           ++ replace (h - 1 - y0 + - dy) with y by lia. replace (w - 1 - x0 + - dx) with x by lia. exact Hin.
           ++ replace (h - 1 - y0 + - dy) with y by lia. replace (w - 1 - x0 + - dx) with x by lia. exact Ha.
        -- destruct (at_cell_spec (y + dy) (x + dx) y0 x0) as [[E1 E2]|_].
           ++ exfalso. apply Hna. pose proof (U1 (- dy) (- dx) Hd') as Hc.
              replace (y0 + - dy) with y in Hc by lia. replace (x0 + - dx) with x in Hc by lia.
              specialize (Hc Hin). congruence.
           ++ rewrite <- (ndv_some c g _ _ a2 Ha2). apply Hadj; try assumption.
              apply (ndv_some c g y x a Ha). exact Hna.
  - (* a non-default value replaced by another non-default value *)
    apply in_non_default in H2.
    eapply adj_inv_shrink; [|exact Hadj]. intros y x Hin.
    destruct (Hfull y x Hin) as (a & Ha).
    rewrite (ndv_apply c g _ y x a Ha), (ndv_some c g y x a Ha), last_write_1.
    destruct (at_cell_spec y x y0 x0) as [[-> ->]|_]; [|auto].
    intros _. congruence.
Qed.
