(* C11 Tier 1 - model of cspuz/puzzle/masyu.py::solve_masyu, all board shapes:
       grid_frame = BoolGridFrame(solver, height - 1, width - 1); solver.add_answer_key(grid_frame)
       graph.active_edges_single_cycle(solver, grid_frame)
       def get_edge(y, x, neg=False):
           if 0 <= y <= 2 * (height - 1) and 0 <= x <= 2 * (width - 1):
               r = grid_frame.horizontal[y // 2][x // 2] if y % 2 == 0 else grid_frame.vertical[y // 2][x // 2]
               return ~r if neg else r
           else: return neg                                   # a Python bool
       for y in range(height): for x in range(width):
           if problem[y][x] == 1:   ensure((L & R & (~LL | ~RR)) | (U & D & (~UU | ~DD)))
           elif problem[y][x] == 2: ensure(((L & LL) | (R & RR)) & ((U & UU) | (D & DD)))
   where L / LL / R / RR / U / UU / D / DD = get_edge at (2y, 2x-1) / (2y, 2x-3) / (2y, 2x+1) / (2y, 2x+3) /
   (2y-1, 2x) / (2y-3, 2x) / (2y+1, 2x) / (2y+3, 2x).  The frame's points are the cells of the board.
   Operands of & and | that come from outside the board are Python bools: bool & bool and bool | bool stay
   Python bools (py_and / py_or below), a bool next to a BoolExpr becomes an operand of the AND / OR node (in
   the written order, through __rand__ / __ror__), and a constraint that folds to a Python bool is posted as
   that bool (Solver.ensure accepts it).
   The call into cspuz.graph is the model of property C06 (Graph/Cycle.v::active_edges_single_cycle on the
   frame, auxiliary-variable route, see CycleFrameBase.v).
   The problem uses the encoding of Rules_masyu.v ([[h; w]; circles], circles row-major; 1 white, 2 black,
   every other integer: no circle).
   Malformed inputs: height <= 0 or width <= 0 is rejected with ValueError (the Python raises ValueError from
   Array2D.__init__ for the frame of height - 1 = -1 or width - 1 = -1 rows / columns, and whenever exactly one
   of height, width is <= 0; boards with height <= -1 and width <= -1 at the same time - where the products of
   two negative shape entries are positive and the Python carries on - are outside the scope of the model and of
   the plug-in's problems); a circle list shorter than height * width is rejected with IndexError (the Python
   raises IndexError at the first missing row / cell, after the frame and the loop constraints were posted; the
   plug-in's malformed problems only drop trailing cells / rows, so that the flat list has fewer than
   height * width entries exactly when some problem[y][x] is missing).  No proofs here. *)
From Coq Require Import ZArith List Bool Arith.
From Cspuz Require Import Lib.PyErr Core.Expr Core.Program Graph.GraphModel Graph.Cycle
     Puzzle.PuzzleBase Puzzle.ModelBase Puzzle.CycleFrameBase.
Import ListNotations.
Local Open Scope nat_scope.

(* a & b, a | b where each operand is a BoolExpr or a Python bool *)
Definition py_and (a b : expr) : expr :=
  match a, b with PyBool p, PyBool q => PyBool (p && q) | _, _ => BNode AND [a; b] end.
Definition py_or (a b : expr) : expr :=
  match a, b with PyBool p, PyBool q => PyBool (p || q) | _, _ => BNode OR [a; b] end.

Local Open Scope Z_scope.
(* the local function get_edge of solve_masyu (h, w = height, width of the board) *)
Definition masyu_get_edge (h w : nat) (y x : Z) (neg : bool) : expr :=
  if (0 <=? y) && (y <=? 2 * (Z.of_nat h - 1)) && (0 <=? x) && (x <=? 2 * (Z.of_nat w - 1)) then
    let r := if Z.even y
             then BVar (frame_hid (h - 1)%nat (w - 1)%nat (Z.to_nat (y / 2)) (Z.to_nat (x / 2)))
             else BVar (frame_vid (h - 1)%nat (w - 1)%nat (Z.to_nat (y / 2)) (Z.to_nat (x / 2))) in
    if neg then BNode NOT [r] else r
  else PyBool neg.

Definition masyu_white (h w : nat) (y x : Z) : expr :=
  let e := masyu_get_edge h w in
  py_or (py_and (py_and (e (y * 2) (x * 2 - 1) false) (e (y * 2) (x * 2 + 1) false))
                (py_or (e (y * 2) (x * 2 - 3) true) (e (y * 2) (x * 2 + 3) true)))
        (py_and (py_and (e (y * 2 - 1) (x * 2) false) (e (y * 2 + 1) (x * 2) false))
                (py_or (e (y * 2 - 3) (x * 2) true) (e (y * 2 + 3) (x * 2) true))).

Definition masyu_black (h w : nat) (y x : Z) : expr :=
  let e := fun y x => masyu_get_edge h w y x false in
  let d0 := py_and (e (y * 2) (x * 2 - 1)) (e (y * 2) (x * 2 - 3)) in
  let d1 := py_and (e (y * 2 - 1) (x * 2)) (e (y * 2 - 3) (x * 2)) in
  let d2 := py_and (e (y * 2) (x * 2 + 1)) (e (y * 2) (x * 2 + 3)) in
  let d3 := py_and (e (y * 2 + 1) (x * 2)) (e (y * 2 + 3) (x * 2)) in
  py_and (py_or d0 d2) (py_or d1 d3).

Local Close Scope Z_scope.

Definition masyu_clue (h w : nat) (circ : list Z) (c : nat * nat) : list expr :=
  let '(y, x) := c in
  let v := at2 circ w y x in
  if (v =? 1)%Z then [masyu_white h w (Z.of_nat y) (Z.of_nat x)]
  else if (v =? 2)%Z then [masyu_black h w (Z.of_nat y) (Z.of_nat x)]
  else [].

Definition masyu_constraints (h w : nat) (circ : list Z) : list expr :=
  flat_map (masyu_clue h w circ) (cells h w).

Definition solve_masyu_model (pb : problem) : res state :=
  let h := dim pb 0 in let w := dim pb 1 in
  if ((getz (sec pb 0) 0 <? 1) || (getz (sec pb 0) 1 <? 1))%Z then Err ValueError
  else
  match frame_cycle (h - 1) (w - 1) with
  | Ok (st1, _) =>
      if Nat.ltb (length (sec pb 1)) (h * w) then Err IndexError
      else Ok (ensure st1 (masyu_constraints h w (sec pb 1)))
  | Err e => Err e
  end.
