(* C11 rule specification - Compass.
   Published rules (puzz.link, "Compass"):
     1. Divide the grid into regions along the cell borders; every region
        contains exactly one compass.
     2. A number in a compass is the number of cells of its region that lie
        further in that direction than the compass itself (above = in a higher
        row, below = in a lower row, left / right = in a column further left / right).

   problem = [[h; w]; cps]   cps: 6 values per compass: y, x, up, left, down, right (negative number = none);
                             the compasses are numbered 0..k-1 in this order
   answer  = h*w cells row-major, the number of the compass whose region the cell belongs to *)
From Coq Require Import ZArith List Bool Arith.
From Cspuz Require Import Graph.GraphModel Puzzle.PuzzleBase.
Import ListNotations.

Definition rules_compass (pb : problem) (ans : answer) : bool :=
  let h := dim pb 0 in let w := dim pb 1 in
  let cps := sec pb 1 in
  let k := Nat.div (length cps) 6 in
  let cs := cells h w in
  Nat.eqb (length ans) (h * w) &&
  forallb (fun v => ((0 <=? v) && (v <? Z.of_nat k))%Z) ans &&
  forallb (fun i =>
     let f := fun j => getz cps (6 * i + j) in
     let cy := zn (f 0) in let cx := zn (f 1) in
     let mine := fun '(y, x) => (at2 ans w y x =? Z.of_nat i)%Z in
     let ok := fun c (p : nat * nat -> bool) =>
                 (c <? 0)%Z || (zcount (fun q => mine q && p q) cs =? c)%Z in
     mine (cy, cx) &&
     cells_connected h w (fun v => (getz ans v =? Z.of_nat i)%Z) &&
     ok (f 2) (fun '(y, _) => Nat.ltb y cy) && ok (f 3) (fun '(_, x) => Nat.ltb x cx) &&
     ok (f 4) (fun '(y, _) => Nat.ltb cy y) && ok (f 5) (fun '(_, x) => Nat.ltb cx x)) (seq 0 k).

Definition answers_compass (pb : problem) : list answer :=
  let n := dim pb 0 * dim pb 1 in
  all_answers (repeat (0%Z, (Z.of_nat (Nat.div (length (sec pb 1)) 6) - 1)%Z) n).
