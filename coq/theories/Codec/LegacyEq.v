(* The legacy encoder util.encode_array and the combinator codec
   Seq / Grid (OneOf [Spaces e "g"; HexInt]) produce the same text for the same cells. *)
From Coq Require Import ZArith List Ascii Bool NArith Lia.
From Cspuz Require Import Lib.PyErr Codec.Comb Codec.CombWf Codec.CombBasics Codec.CombLeaf Codec.CombRoundTrip
  Codec.Legacy Codec.LegacyProofs.
Import ListNotations.
Local Open Scope Z_scope.

Section IntCells.
  Variable e : Z.                                  (* the value of an empty cell *)

  (* a cell is empty (= e) or a number the text format can carry *)
  Definition icell_ok (v : Z) : Prop := v = e \/ 0 <= v <= 4095.

  Definition hexenc (v : Z) : str := hex_prefix v ++ to_base16 v.

  (* the text, as a function of the cells and the number of pending empty cells *)
  Fixpoint enc_ints (l : list Z) (cnt : Z) : str :=
    match l with
    | [] => enc_flush cnt
    | v :: t =>
        if v =? e then (if 20 <=? cnt then "z"%char :: enc_ints t 1 else enc_ints t (cnt + 1))
        else enc_flush cnt ++ hexenc v ++ enc_ints t 0
    end.

  Lemma legacy_hexenc v : 0 <= v <= 4095 -> encode_int_or_str (VInt v) = Ok (hexenc v).
  Proof.
    intros Hv. unfold encode_int_or_str, hexenc, hex_prefix.
    destruct (Z.leb_spec v 15).
    - destruct (Z.leb_spec 16 v); [lia|]. destruct (Z.leb_spec 256 v); [lia|]. reflexivity.
    - destruct (Z.leb_spec 16 v); [|lia]. destruct (Z.leb_spec v 255).
      + destruct (Z.ltb_spec v 256); [|lia]. reflexivity.
      + destruct (Z.ltb_spec v 256); [lia|]. destruct (Z.leb_spec 256 v); [|lia].
        destruct (Z.leb_spec v 4095); [reflexivity|lia].
  Qed.

  (* util.encode_array's loop *)
  Lemma ea_loop_ints l : Forall icell_ok l -> forall cnt, 0 <= cnt <= 20 ->
    ea_loop 16 (VInt e) (map VInt l) cnt = Ok (enc_ints l cnt).
  Proof.
    induction 1 as [|v l Hv Hl IH]; intros cnt Hcnt; cbn [map ea_loop enc_ints pv_eqb].
    - apply ea_flush_enc. exact Hcnt.
    - destruct (Z.eqb_spec v e).
      + replace (cnt + 1 - 1 + 16) with (cnt + 16) by lia.
        destruct (Z.leb_spec 36 (cnt + 16)); destruct (Z.leb_spec 20 cnt); try lia.
        * rewrite IH by lia. reflexivity.
        * apply IH. lia.
      + rewrite ea_flush_enc by exact Hcnt. cbn [bind].
        destruct Hv as [->|Hv]; [congruence|].
        unfold ea_item. rewrite (legacy_hexenc v Hv). cbn [bind]. rewrite IH by lia. reflexivity.
  Qed.

  (* ---- the combinator side *)
  Lemma enc_ints_20 l : enc_ints l 20 = "z"%char :: enc_ints l 0.
  Proof.
    destruct l as [|v t]; simpl; [reflexivity|].
    destruct (v =? e); reflexivity.
  Qed.

  Lemma base36_35 : base36_char 35 = "z"%char.
  Proof. reflexivity. Qed.

  (* a run of empty cells, read the way Spaces.serialize does (run_eq), in the streaming text *)
  Lemma enc_ints_run : forall lim rest cnt, 1 <= cnt -> cnt + Z.of_nat lim = 20 ->
    enc_ints rest cnt =
    base36_char (15 + cnt + Z.of_nat (run_eq (VInt e) (map VInt rest) lim))
      :: enc_ints (skipn (run_eq (VInt e) (map VInt rest) lim) rest) 0.
  Proof.
    induction lim as [|k IH]; intros rest cnt Hc Hl.
    - assert (cnt = 20) by lia. subst cnt.
      assert (E0 : run_eq (VInt e) (map VInt rest) 0 = 0%nat) by (destruct rest; reflexivity).
      rewrite E0. cbn [skipn].
      change (15 + 20 + Z.of_nat 0) with 35. rewrite base36_35. apply enc_ints_20.
    - destruct rest as [|x t]; cbn [map run_eq].
      + cbn [skipn enc_ints]. unfold enc_flush. destruct (Z.ltb_spec 0 cnt); [|lia]. f_equal. f_equal. lia.
      + cbn [pv_eqb enc_ints]. destruct (Z.eqb_spec x e).
        * destruct (Z.leb_spec 20 cnt); [lia|].
          rewrite (IH t (cnt + 1)) by lia. cbn [skipn]. f_equal. f_equal. lia.
        * cbn [skipn enc_ints]. destruct (Z.eqb_spec x e); [contradiction|].
          unfold enc_flush. destruct (Z.ltb_spec 0 cnt); [|lia]. destruct (Z.ltb_spec 0 0); [lia|].
          cbn [app]. f_equal. f_equal. lia.
  Qed.

  Definition cellc : comb := OneOf [Spaces (VInt e) "g"%char; HexInt].

  Lemma nth_error_map_int l i v : nth_error l i = Some v -> nth_error (map VInt l) i = Some (VInt v).
  Proof. intros H. rewrite nth_error_map, H. reflexivity. Qed.

  Lemma skipn_map_int n (l : list Z) : skipn n (map VInt l) = map VInt (skipn n l).
  Proof. revert l; induction n; intros [|x l]; simpl; auto. Qed.

  (* one call of OneOf(Spaces, HexInt).serialize at index nr *)
  Lemma cell_ser_step env l nr v : Forall icell_ok l -> nth_error l nr = Some v ->
    exists ofs s, ser env cellc (VList (map VInt l)) nr = Ok (Some (S ofs, s)) /\
      (nr + S ofs <= length l)%nat /\
      enc_ints (skipn nr l) 0 = s ++ enc_ints (skipn (nr + S ofs) l) 0.
  Proof.
    intros Hall Hn.
    assert (Hlt : (nr < length l)%nat) by (apply nth_error_Some; congruence).
    assert (Hv : icell_ok v) by (rewrite Forall_forall in Hall; apply Hall; eapply nth_error_In; eauto).
    pose proof (firstn_skipn_nth l nr v Hn) as Hsk.
    unfold cellc. cbn [ser]. unfold spaces_ser, with_item. cbn [py_items].
    rewrite map_length. destruct (Nat.eqb_spec nr (length l)); [lia|].
    unfold nth_res. rewrite (nth_error_map_int l nr v Hn). cbn [pv_eqb].
    destruct (Z.eqb_spec v e) as [->|Hne]; cbn [negb].
    - (* a run of empty cells *)
      set (r := run_eq (VInt e) (skipn (S nr) (map VInt l)) (Z.to_nat (spaces_max "g"%char - 1))).
      change (Z.to_nat (spaces_max "g"%char - 1)) with 19%nat in r.
      change (spaces_offset "g"%char) with 15.
      destruct (run_eq_spec (VInt e) (skipn (S nr) (map VInt l)) 19) as (_ & Hr1 & Hr2). fold r in Hr1, Hr2.
      rewrite skipn_length, map_length in Hr2.
      rewrite to_base36_small by lia.
      exists r, [base36_char (15 + Z.of_nat (S r))]. split; [reflexivity|]. split; [lia|].
      rewrite Hsk. cbn [enc_ints]. rewrite Z.eqb_refl. destruct (Z.leb_spec 20 0); [lia|].
      change (0 + 1) with 1. cbn [app].
      rewrite (enc_ints_run 19 (skipn (S nr) l) 1) by lia.
      unfold r. rewrite skipn_map_int.
      set (r' := run_eq (VInt e) (map VInt (skipn (S nr) l)) 19).
      rewrite skipn_skipn'. replace (S nr + r')%nat with (nr + S r')%nat by lia.
      f_equal. f_equal. lia.
    - (* a number *)
      destruct Hv as [->|Hv]; [congruence|].
      unfold hexint_ser, with_item. cbn [py_items]. rewrite map_length.
      destruct (Nat.eqb_spec nr (length l)); [lia|].
      unfold nth_res. rewrite (nth_error_map_int l nr v Hn).
      destruct (Z.leb_spec 0 v); [|lia]. destruct (Z.leb_spec v 4095); [|lia]. cbn [andb negb].
      exists 0%nat, (hexenc v). split; [reflexivity|]. split; [lia|].
      rewrite Hsk. cbn [enc_ints]. destruct (Z.eqb_spec v e); [contradiction|].
      replace (nr + 1)%nat with (S nr) by lia. reflexivity.
  Qed.

  (* Seq.serialize's loop over the cells *)
  Lemma seq_loop_ints env l : Forall icell_ok l -> forall fuel nr ret,
    (nr <= length l)%nat -> (length l - nr <= fuel)%nat ->
    seq_ser_loop (ser env cellc) (Z.of_nat (length l)) (VList (map VInt l)) fuel nr ret
    = Ok (Some (ret ++ enc_ints (skipn nr l) 0)).
  Proof.
    intros Hall. induction fuel as [|fuel IH]; intros nr ret Hnr Hfuel.
    - assert (nr = length l) by lia. subst nr. simpl.
      destruct (Z.ltb_spec (Z.of_nat (length l)) (Z.of_nat (length l))); [lia|].
      rewrite Z.eqb_refl. rewrite skipn_all. simpl. rewrite app_nil_r. reflexivity.
    - cbn [seq_ser_loop]. destruct (Z.ltb_spec (Z.of_nat nr) (Z.of_nat (length l))).
      + destruct (nth_error l nr) as [v|] eqn:En; [|apply nth_error_None in En; lia].
        destruct (cell_ser_step env l nr v Hall En) as (ofs & s & Es & Hle & Henc).
        rewrite Es. rewrite IH by lia. rewrite Henc. rewrite app_assoc. reflexivity.
      + assert (nr = length l) by lia. subst nr. rewrite Z.eqb_refl.
        rewrite skipn_all. simpl. rewrite app_nil_r. reflexivity.
  Qed.

  (* encode_array (1-D) = Seq(OneOf(Spaces(e, "g"), HexInt()), n) *)
  Theorem legacy_eq_seq env l : Forall icell_ok l ->
    encode_array (map VInt l) marker_g (VInt e) (Some 1) = Ok (enc_ints l 0) /\
    ser env (Seq cellc (Z.of_nat (length l))) (VList [VList (map VInt l)]) 0 = Ok (Some (1%nat, enc_ints l 0)).
  Proof.
    intros Hall. split.
    - unfold encode_array. change (str_find marker_g BASE36 0) with (@Ok Z 16). simpl.
      apply ea_loop_ints; [exact Hall|lia].
    - cbn [ser]. unfold seq_ser. cbn [py_items length Nat.eqb nth_res nth_error].
      rewrite Nat2Z.id. rewrite (seq_loop_ints env l Hall (length l) 0 []) by lia.
      reflexivity.
  Qed.

  (* the same for a board given as rows: encode_array infers dim = 2 and flattens, Grid flattens too *)
  Definition int_rows (rows : list (list Z)) : list pv := map (fun r => VList (map VInt r)) rows.

  Lemma sum_int_rows rows : py_sum_lists (int_rows rows) = Ok (map VInt (concat rows)).
  Proof.
    induction rows as [|r rows IH]; [reflexivity|].
    change (int_rows (r :: rows)) with (VList (map VInt r) :: int_rows rows).
    cbn [py_sum_lists]. rewrite IH. cbn [bind concat]. rewrite map_app. reflexivity.
  Qed.

  Lemma flatten_int_rows rows : forall y pre, (y = length pre)%nat ->
    grid_flatten (int_rows (pre ++ rows)) (length rows) y = Ok (map VInt (concat rows)).
  Proof.
    induction rows as [|r rows IH]; intros y pre Hy; [reflexivity|].
    cbn [length grid_flatten].
    assert (En : nth_res (int_rows (pre ++ r :: rows)) y = Ok (VList (map VInt r))).
    { unfold nth_res, int_rows. rewrite nth_error_map. rewrite nth_error_app2 by lia.
      subst y. rewrite Nat.sub_diag. reflexivity. }
    rewrite En. cbn [py_items].
    replace (pre ++ r :: rows) with ((pre ++ [r]) ++ rows) by (rewrite <- app_assoc; reflexivity).
    rewrite (IH (S y) (pre ++ [r])) by (rewrite app_length; simpl; lia).
    cbn [concat]. rewrite map_app. reflexivity.
  Qed.

  Theorem legacy_eq_grid h w rows :
    Z.of_nat (length rows) = h -> Forall (fun r => Z.of_nat (length r) = w) rows ->
    Forall (Forall icell_ok) rows -> rows <> [] ->
    encode_array (int_rows rows) marker_g (VInt e) None = Ok (enc_ints (concat rows) 0) /\
    serialize_problem (Grid cellc None) (VList (int_rows rows)) h w = Ok (enc_ints (concat rows) 0).
  Proof.
    intros Hh Hw Hall Hne. subst h.
    assert (Hcells : Forall icell_ok (concat rows)).
    { apply Forall_concat. exact Hall. }
    destruct (legacy_eq_seq (mk_env (Z.of_nat (length rows)) w) (concat rows) Hcells) as [H1 H2].
    split.
    - unfold encode_array. change (str_find marker_g BASE36 0) with (@Ok Z 16). simpl.
      assert (Hl : forallb is_list (int_rows rows) = true).
      { apply forallb_forall. intros v Hv. apply in_map_iff in Hv as (r & <- & _). reflexivity. }
      rewrite Hl. simpl. rewrite sum_int_rows. simpl. apply ea_loop_ints; [exact Hcells|lia].
    - unfold serialize_problem. cbn [ser]. unfold grid_ser. cbn [py_items length Nat.eqb nth_res nth_error grid_dims height width mk_env].
      rewrite Nat2Z.id.
      pose proof (flatten_int_rows rows 0 [] eq_refl) as Hf. cbn [app] in Hf. rewrite Hf.
      assert (Hlen : Z.of_nat (length rows) * w = Z.of_nat (length (concat rows))).
      { clear -Hw. induction Hw as [|r rows Hr _ IH]; [reflexivity|]. cbn [length concat]. rewrite app_length.
        rewrite Nat2Z.inj_add, Nat2Z.inj_succ. rewrite <- IH. nia. }
      rewrite Hlen. cbn [ser] in H2. rewrite H2. reflexivity.
  Qed.
End IntCells.

(* ------------------------------------------------------------------ border bitmaps:
   util.encode_grid_segmentation's convert_binary_seq = Seq(MultiDigit(base=2, digits=5), n),
   the coding Rooms uses for its two border grids *)
Definition bit (b : Z) : Prop := b = 0 \/ b = 1.

Fixpoint horner (d : nat) (bs : list Z) (acc : Z) : Z :=
  match d with
  | O => acc
  | S d' => match bs with
            | [] => horner d' [] (acc * 2)
            | b :: t => horner d' t (acc * 2 + b)
            end
  end.

Lemma md_loop_bits d : forall bs acc, Forall bit bs ->
  md_ser_loop 2 d (map VInt bs) acc = Ok (Some (horner d bs acc)).
Proof.
  induction d as [|d IH]; intros bs acc Hb; simpl; [reflexivity|].
  destruct bs as [|b t]; simpl.
  - apply (IH [] (acc * 2)). constructor.
  - inversion Hb as [|? ? Hb0 Ht]; subst.
    assert (E : (0 <=? b) && (b <? 2) = true) by (destruct Hb0; subst; reflexivity).
    rewrite E. apply IH. exact Ht.
Qed.

Lemma horner5_val5 bs : Forall bit bs -> horner 5 bs 0 = val5 (firstn 5 bs) /\ 0 <= val5 (firstn 5 bs) < 32.
Proof.
  intros Hb.
  assert (Hc : forall b, bit b -> b = 0 \/ b = 1) by (intros b H; exact H).
  destruct bs as [|b0 [|b1 [|b2 [|b3 [|b4 t]]]]];
    repeat match goal with
           | H : Forall bit (_ :: _) |- _ => inversion H; clear H; subst
           end;
    repeat match goal with
           | H : bit ?b |- _ => destruct H; subst
           end; vm_compute; repeat split; congruence.
Qed.

(* the pure form of convert_binary_seq *)
Fixpoint cbs (fuel : nat) (s : list Z) : str :=
  match fuel with
  | O => []
  | S f => match s with
           | [] => []
           | _ => base36_char (val5 (firstn 5 s)) :: cbs f (skipn 5 s)
           end
  end.

Lemma Forall_skipn {A} (P : A -> Prop) n l : Forall P l -> Forall P (skipn n l).
Proof. revert l; induction n; intros l H; simpl; auto. destruct l; auto. inversion H; auto. Qed.

Lemma convert_binary_seq_cbs fuel : forall s, Forall bit s -> convert_binary_seq fuel s = Ok (cbs fuel s).
Proof.
  induction fuel as [|f IH]; intros s Hs; [reflexivity|].
  destruct s as [|b t]; [reflexivity|].
  destruct (horner5_val5 (b :: t) Hs) as (_ & Hr).
  cbn [convert_binary_seq cbs].
  rewrite base36_index by lia. cbn [bind].
  rewrite IH by (apply Forall_skipn; exact Hs). reflexivity.
Qed.

Lemma md_ser_bits env F nr : Forall bit F -> (nr < length F)%nat ->
  ser env (MultiDigit 2 5) (VList (map VInt F)) nr
  = Ok (Some (Nat.min (length F - nr) 5, [base36_char (val5 (firstn 5 (skipn nr F)))])).
Proof.
  intros Hb Hlt. cbn [ser]. unfold md_ser, with_item. cbn [py_items]. rewrite map_length.
  destruct (Nat.eqb_spec nr (length F)); [lia|].
  unfold nth_res. destruct (nth_error (map VInt F) nr) eqn:En;
    [|apply nth_error_None in En; rewrite map_length in En; lia].
  rewrite skipn_map_int. rewrite md_loop_bits by (apply Forall_skipn; exact Hb).
  destruct (horner5_val5 (skipn nr F) (Forall_skipn bit nr F Hb)) as (E & Hr). rewrite E.
  rewrite to_base36_small by lia. reflexivity.
Qed.

Lemma cbs_skipn_step fuel F nr : (nr < length F)%nat ->
  cbs (S fuel) (skipn nr F) =
  base36_char (val5 (firstn 5 (skipn nr F))) :: cbs fuel (skipn (nr + Nat.min (length F - nr) 5) F).
Proof.
  intros Hlt. cbn [cbs]. destruct (skipn nr F) as [|b t] eqn:E.
  - apply (f_equal (@length Z)) in E. rewrite skipn_length in E. simpl in E. lia.
  - rewrite <- E. f_equal. rewrite skipn_skipn'. 
    destruct (Nat.min_spec (length F - nr) 5) as [[Hm ->]|[Hm ->]]; [|reflexivity].
    (* fewer than five flags remain: both sides are the empty text *)
    replace (nr + (length F - nr))%nat with (length F) by lia.
    rewrite skipn_all. rewrite (skipn_all2 F) by lia. reflexivity.
Qed.

Lemma seq_loop_bits env F : Forall bit F -> forall fuel nr ret,
  (nr <= length F)%nat -> (length F - nr <= fuel)%nat ->
  seq_ser_loop (ser env (MultiDigit 2 5)) (Z.of_nat (length F)) (VList (map VInt F)) fuel nr ret
  = Ok (Some (ret ++ cbs fuel (skipn nr F))).
Proof.
  intros Hb. induction fuel as [|fuel IH]; intros nr ret Hnr Hfuel.
  - assert (nr = length F) by lia. subst nr. simpl.
    destruct (Z.ltb_spec (Z.of_nat (length F)) (Z.of_nat (length F))); [lia|].
    rewrite Z.eqb_refl. rewrite app_nil_r. reflexivity.
  - cbn [seq_ser_loop]. destruct (Z.ltb_spec (Z.of_nat nr) (Z.of_nat (length F))).
    + rewrite md_ser_bits by (auto; lia).
      pose proof (Nat.le_min_l (length F - nr) 5) as Hm1. pose proof (Nat.le_min_r (length F - nr) 5) as Hm2.
      destruct (Nat.min (length F - nr) 5) as [|m] eqn:Em;
        [destruct (Nat.min_spec (length F - nr) 5) as [[? E0]|[? E0]]; rewrite Em in E0; lia|].
      assert (Hrem : (length F - (nr + S m) <= fuel)%nat).
      { destruct (Nat.min_spec (length F - nr) 5) as [[? E0]|[? E0]]; rewrite Em in E0; lia. }
      rewrite IH by lia. rewrite cbs_skipn_step by lia. rewrite Em.
      rewrite <- app_assoc. reflexivity.
    + assert (nr = length F) by lia. subst nr. rewrite Z.eqb_refl.
      rewrite skipn_all. simpl. rewrite app_nil_r. reflexivity.
Qed.

Theorem bitmap_text_eq env F : Forall bit F ->
  convert_binary_seq (length F) F = Ok (cbs (length F) F) /\
  ser env (Seq (MultiDigit 2 5) (Z.of_nat (length F))) (VList [VList (map VInt F)]) 0
    = Ok (Some (1%nat, cbs (length F) F)).
Proof.
  intros Hb. split; [apply convert_binary_seq_cbs; exact Hb|].
  change (ser env (Seq (MultiDigit 2 5) (Z.of_nat (length F))) (VList [VList (map VInt F)]) 0)
    with (seq_ser (ser env (MultiDigit 2 5)) (Z.of_nat (length F)) (VList [VList (map VInt F)]) 0).
  unfold seq_ser. cbn [py_items length Nat.eqb nth_res nth_error].
  rewrite Nat2Z.id. rewrite (seq_loop_bits env F Hb (length F) 0 []) by lia. reflexivity.
Qed.
