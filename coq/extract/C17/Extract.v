Require Extraction.
Require Import ExtrOcamlBasic.
From Coq Require Import ZArith List Ascii.
Require Import Cspuz.Lib.PyErr Cspuz.Codec.Comb Cspuz.Codec.CombWf Cspuz.Codec.Yajilin Cspuz.Codec.Puzzles Cspuz.Codec.TotalModel.
Extraction "model.ml" Z.add Nat.add pyerr_code py_int py_str_int isdigit_c is_hex is_alnum_lower
  no_custom yajilin_customF cu_env deF deF_at deserialize_problemF deserialize_urlF
  serialize_problem_cu dec_ok single productive wf.
