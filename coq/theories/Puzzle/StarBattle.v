(* C11 Tier 1 - model of cspuz/puzzle/star_battle.py::solve_star_battle, all n and k:
       has_star = solver.bool_array((n, n)); solver.add_answer_key(has_star)
       for i in range(n):
           ensure(sum(has_star[i, :].cond(1, 0)) == k)      # Python sum: ((0 + e0) + e1) + ...
           ensure(sum(has_star[:, i].cond(1, 0)) == k)
       ensure(~(has_star[:-1, :] & has_star[1:, :]))
       ensure(~(has_star[:, :-1] & has_star[:, 1:]))
       ensure(~(has_star[:-1, :-1] & has_star[1:, 1:]))
       ensure(~(has_star[:-1, 1:] & has_star[1:, :-1]))
       for i in range(n): ensure(count_true([has_star[y, x] for y, x in row-major order if blocks[y][x] == i]) == k)
   The problem uses the encoding of Rules_star_battle.v ([[n; k]; region ids]).  No proofs here. *)
From Coq Require Import ZArith List Bool Arith.
From Cspuz Require Import Lib.PyErr Core.Expr Core.Program Puzzle.PuzzleBase Puzzle.ModelBase
     Puzzle.Rules_norinori Puzzle.Norinori Puzzle.Putteria.
Import ListNotations.
Local Open Scope nat_scope.

(* Python's sum(...) over v.cond(1, 0): left-nested binary additions starting from the int 0 *)
Definition py_sum_vars (ids : list nat) : expr :=
  fold_left (fun acc i => INode ADD [acc; INode IF [BVar i; PyInt 1; PyInt 0]]) ids (PyInt 0).

Definition star_battle_constraints (n : nat) (k : Z) (region : list Z) : list expr :=
  flat_map (fun i => [BNode EQ [py_sum_vars (map (fun x => cidx n (i, x)) (seq 0 n)); PyInt k];
                      BNode EQ [py_sum_vars (map (fun y => cidx n (y, i)) (seq 0 n)); PyInt k]]) (seq 0 n) ++
  map (fun '(y, x) => nand (cidx n (y, x)) (cidx n (S y, x))) (cells (n - 1) n) ++
  map (fun '(y, x) => nand (cidx n (y, x)) (cidx n (y, S x))) (cells n (n - 1)) ++
  map (fun '(y, x) => nand (cidx n (y, x)) (cidx n (S y, S x))) (cells (n - 1) (n - 1)) ++
  map (fun '(y, x) => nand (cidx n (y, S x)) (cidx n (S y, x))) (cells (n - 1) (n - 1)) ++
  map (fun i => BNode EQ [ct_vars (map (cidx n) (region_cells n n region i)); PyInt k]) (seq 0 n).

Definition solve_star_battle_model (pb : problem) : res state :=
  let n := dim pb 0 in
  Ok (bool_grid_state (n * n) (star_battle_constraints n (getz (sec pb 0) 1) (sec pb 1))).
