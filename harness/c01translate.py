"""Fail-closed translator for C01: reads cspuz/backend/z3.py::_convert_expr with
Python's `ast` and writes coq/theories/Gen/Z3Table.v (op -> px term of
Backend/Z3Call.v).  Anything that is not recognised raises TranslateError."""
import ast
import os

import vlib

OPS = ["VAR", "BOOL_CONSTANT", "INT_CONSTANT", "NEG", "ADD", "SUB", "EQ", "NE", "LE", "LT", "GE", "GT",
       "NOT", "AND", "OR", "IFF", "XOR", "IMP", "IF", "ALLDIFF",
       "GRAPH_ACTIVE_VERTICES_CONNECTED", "GRAPH_DIVISION"]
COQ_OP = {"GRAPH_ACTIVE_VERTICES_CONNECTED": "G_AVC", "GRAPH_DIVISION": "G_DIV"}


class TranslateError(Exception):
    pass


def _d(node):
    return ast.dump(node, annotate_fields=False)


def _parse_stmts(src):
    return ast.parse(src).body


# the part of _convert_expr in front of the operator chain, modelled by hand in
# Backend/Z3.v::conv (literal pass-through, TypeError, variable lookup, operand
# conversion): must be exactly this
PREFIX = '''
if isinstance(e, (bool, int)):
    return e
if not isinstance(e, Expr):
    raise TypeError()
'''
VAR_TEST = "isinstance(e, (BoolVar, IntVar))"
VAR_BODY = "return variables_dict[e.id]"
OPERANDS = "operands = list(map(lambda x: _convert_expr(x, variables_dict), e.operands))"

FOLD = '''
ret = operands[0]
for i in range(1, len(operands)):
    ret = ret %s operands[i]
return ret
'''
ALLPY_TEST = "all(isinstance(x, int) for x in operands)"
PYDISTINCT = "len(set(operands)) == len(operands)"

CMP = {ast.Eq: "PEq", ast.NotEq: "PNe", ast.LtE: "PLe", ast.Lt: "PLt", ast.GtE: "PGe", ast.Gt: "PGt"}
BIN = {ast.Add: "PAdd", ast.Sub: "PSub"}


def _expr(src):
    return ast.parse(src, mode="eval").body


def tx(e):
    """Python expression -> px (Coq text)."""
    if _d(e) == _d(_expr(PYDISTINCT)):
        return "XPyDistinct"
    if isinstance(e, ast.Constant) and e.value is None:
        return "XNone"
    if isinstance(e, ast.Subscript) and _d(e.value) == _d(_expr("operands")) and isinstance(e.slice, ast.Constant) \
            and type(e.slice.value) is int and 0 <= e.slice.value < 16:
        return "(XArg %d)" % e.slice.value
    if isinstance(e, ast.UnaryOp) and isinstance(e.op, ast.USub):
        return "(XNeg %s)" % tx(e.operand)
    if isinstance(e, ast.BinOp) and type(e.op) in BIN:
        return "(XBin %s %s %s)" % (BIN[type(e.op)], tx(e.left), tx(e.right))
    if isinstance(e, ast.Compare) and len(e.ops) == 1 and type(e.ops[0]) in CMP:
        return "(XBin %s %s %s)" % (CMP[type(e.ops[0])], tx(e.left), tx(e.comparators[0]))
    if isinstance(e, ast.Call) and not e.keywords and isinstance(e.func, ast.Attribute) \
            and _d(e.func.value) == _d(_expr("z3")):
        f, a = e.func.attr, e.args
        whole = len(a) == 1 and _d(a[0]) == _d(_expr("operands"))
        if f == "Not" and len(a) == 1:
            return "(XNot %s)" % tx(a[0])
        if f == "And" and whole:
            return "XAndArgs"
        if f == "Or" and whole:
            return "XOrArgs"
        if f == "Distinct" and whole:
            return "XDistinctArgs"
        if f == "And" and len(a) == 2:
            return "(XAnd2 %s %s)" % (tx(a[0]), tx(a[1]))
        if f == "Or" and len(a) == 2:
            return "(XOr2 %s %s)" % (tx(a[0]), tx(a[1]))
        if f == "Xor" and len(a) == 2:
            return "(XXor %s %s)" % (tx(a[0]), tx(a[1]))
        if f == "If" and len(a) == 3:
            return "(XIf %s %s %s)" % (tx(a[0]), tx(a[1]), tx(a[2]))
    raise TranslateError("unrecognised expression in _convert_expr: " + ast.unparse(e))


def tbody(stmts):
    """statement list of one branch -> px."""
    if len(stmts) == 1 and isinstance(stmts[0], ast.Return) and stmts[0].value is not None:
        return tx(stmts[0].value)
    for pyop, name in (("+", "PAdd"), ("-", "PSub")):
        if [_d(s) for s in stmts] == [_d(s) for s in _parse_stmts(FOLD % pyop)]:
            return "(XFoldL %s)" % name
    if len(stmts) >= 2 and isinstance(stmts[0], ast.If) and _d(stmts[0].test) == _d(_expr(ALLPY_TEST)) \
            and not stmts[0].orelse:
        return "(XAllPyInt %s %s)" % (tbody(stmts[0].body), tbody(stmts[1:]))
    if not stmts:
        return "XNone"
    raise TranslateError("unrecognised branch body in _convert_expr: " + "; ".join(ast.unparse(s) for s in stmts)[:300])


def op_of_test(t):
    if isinstance(t, ast.Compare) and len(t.ops) == 1 and isinstance(t.ops[0], ast.Eq) \
            and _d(t.left) == _d(_expr("e.op")) and len(t.comparators) == 1:
        c = t.comparators[0]
        if isinstance(c, ast.Attribute) and _d(c.value) == _d(_expr("Op")) and c.attr in OPS:
            return [c.attr]
    # e.op == Op.A or e.op == Op.B
    if isinstance(t, ast.BoolOp) and isinstance(t.op, ast.Or):
        out = []
        for v in t.values:
            out += op_of_test(v)
        return out
    # e.op in (Op.A, Op.B)
    if isinstance(t, ast.Compare) and len(t.ops) == 1 and isinstance(t.ops[0], ast.In) \
            and _d(t.left) == _d(_expr("e.op")) and isinstance(t.comparators[0], (ast.Tuple, ast.List)):
        out = []
        for c in t.comparators[0].elts:
            if isinstance(c, ast.Attribute) and _d(c.value) == _d(_expr("Op")) and c.attr in OPS:
                out.append(c.attr)
            else:
                raise TranslateError("unrecognised operator test: " + ast.unparse(t))
        return out
    raise TranslateError("unrecognised operator test in _convert_expr: " + ast.unparse(t))


def read_table(path):
    with open(path) as f:
        mod = ast.parse(f.read())
    fn = [n for n in mod.body if isinstance(n, ast.FunctionDef) and n.name == "_convert_expr"]
    if len(fn) != 1:
        raise TranslateError("_convert_expr not found exactly once")
    fn = fn[0]
    if [a.arg for a in fn.args.args] != ["e", "variables_dict"] or fn.args.vararg or fn.args.kwarg \
            or fn.args.defaults or fn.args.kwonlyargs or fn.decorator_list:
        raise TranslateError("_convert_expr signature changed")
    body = [s for s in fn.body if not (isinstance(s, ast.Expr) and isinstance(s.value, ast.Constant))]
    pre = _parse_stmts(PREFIX)
    if len(body) != len(pre) + 1 or [_d(s) for s in body[:len(pre)]] != [_d(s) for s in pre]:
        raise TranslateError("_convert_expr: the literal / type-check prefix changed")
    vif = body[len(pre)]
    if not (isinstance(vif, ast.If) and _d(vif.test) == _d(_expr(VAR_TEST))
            and [_d(s) for s in vif.body] == [_d(s) for s in _parse_stmts(VAR_BODY)]):
        raise TranslateError("_convert_expr: the variable branch changed")
    rest = vif.orelse
    if len(rest) < 1 or _d(rest[0]) != _d(_parse_stmts(OPERANDS)[0]):
        raise TranslateError("_convert_expr: the operand conversion line changed")
    rest = rest[1:]
    table = {}
    if len(rest) > 1:
        raise TranslateError("_convert_expr: statements after the operator chain")
    node = rest[0] if rest else None
    while node is not None:
        if not isinstance(node, ast.If):
            raise TranslateError("_convert_expr: operator chain contains a non-if statement")
        ops = op_of_test(node.test)
        term = tbody(node.body)
        for o in ops:
            if o in table:
                raise TranslateError("operator %s has two branches" % o)
            table[o] = term
        if not node.orelse:
            node = None
        elif len(node.orelse) == 1 and isinstance(node.orelse[0], ast.If):
            node = node.orelse[0]
        else:
            # a final else: is a branch for every operator not yet listed
            term = tbody(node.orelse)
            for o in OPS:
                table.setdefault(o, term)
            node = None
    return table


def render(table):
    lines = ["(* GENERATED by harness/c01translate.py from cspuz/backend/z3.py::_convert_expr -- do not edit *)",
             "From Cspuz Require Import Core.Expr Backend.Z3Call.",
             "Definition z3_table (o : op) : px :=",
             "  match o with"]
    for o in OPS:
        lines.append("  | %s => %s" % (COQ_OP.get(o, o), table.get(o, "XNone")))
    lines.append("  end.")
    return "\n".join(lines) + "\n"


def translate(repo=None):
    repo = repo or vlib.REPO
    table = read_table(os.path.join(repo, "cspuz", "backend", "z3.py"))
    text = render(table)
    vlib.write_if_changed(os.path.join(vlib.GEN, "Z3Table.v"), text)
    return table


# ----------------------------------------------------------------- Z3Backend.solve
# The body of Z3Backend.solve is modelled by hand in Backend/Z3.v (bound_terms, top_cast,
# readback) and Backend/Z3Verdict.v (z3_solve3): it must be exactly the text below, except
#  * the verdict test (the hole), which is translated into Gen/Z3SolveTable.v: for each of
#    z3's three answers, does solve() return False before it asks for a model?
#  * statements that only set options on the solver object (solver.set(...), possibly under
#    an `if` whose test does not mention solver / self / the model): the theorems hold for
#    every sound three-valued solver, so options that can only change WHICH answer z3 gives
#    (time / resource limits, seeds) are no-ops of the model.
SOLVE_HEAD = "solver = z3.Solver()"
SOLVE_ASSERT = '''
for var in self.variables:
    if isinstance(var, IntVar):
        var_z3 = self.variables_dict[var.id]
        solver.add(var.lo <= var_z3, var_z3 <= var.hi)
solver.add(self.converted_constraints)
'''
SOLVE_VERDICT_BODY = "return False"
SOLVE_READBACK = '''
model = solver.model()
for var in self.variables:
    var_z3 = self.variables_dict[var.id]
    if isinstance(var, BoolVar):
        var.sol = z3.is_true(model[var_z3])
    elif isinstance(var, IntVar):
        var.sol = model[var_z3].as_long()
return True
'''
KINDS = ("sat", "unsat", "unknown")


def _names(node):
    return {n.id for n in ast.walk(node) if isinstance(n, ast.Name)}


_STATEFUL = {"solver", "self", "model", "var", "var_z3"}
_SOLVER_METHODS = ("add", "check", "model", "push", "pop", "reset", "assert_exprs", "assert_and_track", "append", "insert")


def _is_option_stmt(s):
    """solver.set(...), possibly under an `if` that reads neither the solver nor the backend
    object: cannot change the asserted terms, only which answer z3 gives."""
    if isinstance(s, ast.Expr) and isinstance(s.value, ast.Call) and isinstance(s.value.func, ast.Attribute) \
            and _d(s.value.func.value) == _d(_expr("solver")) and s.value.func.attr == "set":
        used = set()
        for a in list(s.value.args) + [k.value for k in s.value.keywords]:
            used |= _names(a)
        return not (used & _STATEFUL)
    if isinstance(s, ast.If) and not s.orelse and s.body and not (_names(s.test) & _STATEFUL):
        for n in ast.walk(s.test):
            if isinstance(n, ast.Call) and isinstance(n.func, ast.Attribute) and n.func.attr in _SOLVER_METHODS:
                return False
        return all(_is_option_stmt(x) for x in s.body)
    return False


def _z3_kind(e):
    if isinstance(e, ast.Attribute) and _d(e.value) == _d(_expr("z3")) and e.attr in KINDS:
        return e.attr
    raise TranslateError("Z3Backend.solve: verdict test compares with something else than z3.sat/unsat/unknown: " + ast.unparse(e))


def verdict_table(test):
    """the `if <test>: return False` in front of solver.model(): kind -> bool."""
    if isinstance(test, ast.UnaryOp) and isinstance(test.op, ast.Not):
        return {k: not v for k, v in verdict_table(test.operand).items()}
    if isinstance(test, ast.Compare) and len(test.ops) == 1 and _d(test.left) == _d(_expr("solver.check()")):
        o, c = test.ops[0], test.comparators[0]
        if isinstance(o, (ast.Eq, ast.NotEq)):
            k0 = _z3_kind(c)
            return {k: (k == k0) == isinstance(o, ast.Eq) for k in KINDS}
        if isinstance(o, (ast.In, ast.NotIn)) and isinstance(c, (ast.Tuple, ast.List, ast.Set)):
            ks = [_z3_kind(x) for x in c.elts]
            return {k: (k in ks) == isinstance(o, ast.In) for k in KINDS}
    raise TranslateError("Z3Backend.solve: unrecognised verdict test: " + ast.unparse(test))


def read_solve(path):
    with open(path) as f:
        mod = ast.parse(f.read())
    cls = [n for n in mod.body if isinstance(n, ast.ClassDef) and n.name == "Z3Backend"]
    if len(cls) != 1:
        raise TranslateError("class Z3Backend not found exactly once")
    fn = [n for n in cls[0].body if isinstance(n, ast.FunctionDef) and n.name == "solve"]
    if len(fn) != 1:
        raise TranslateError("Z3Backend.solve not found exactly once")
    fn = fn[0]
    if [a.arg for a in fn.args.args] != ["self"] or fn.args.vararg or fn.args.kwarg or fn.args.defaults \
            or fn.args.kwonlyargs or fn.decorator_list:
        raise TranslateError("Z3Backend.solve signature changed")
    body = [s for s in fn.body if not (isinstance(s, ast.Expr) and isinstance(s.value, ast.Constant))]
    if not body or _d(body[0]) != _d(_parse_stmts(SOLVE_HEAD)[0]):
        raise TranslateError("Z3Backend.solve: does not start with `solver = z3.Solver()`")
    core = [s for s in body[1:] if not _is_option_stmt(s)]
    a, r = _parse_stmts(SOLVE_ASSERT), _parse_stmts(SOLVE_READBACK)
    if len(core) != len(a) + 1 + len(r):
        raise TranslateError("Z3Backend.solve: body has %d core statements, the modelled text has %d: %s" % (
            len(core), len(a) + 1 + len(r), "; ".join(ast.unparse(s) for s in core)[:400]))
    if [_d(s) for s in core[:len(a)]] != [_d(s) for s in a]:
        raise TranslateError("Z3Backend.solve: the assertion of bounds / constraints changed")
    if [_d(s) for s in core[len(a) + 1:]] != [_d(s) for s in r]:
        raise TranslateError("Z3Backend.solve: the model read-back changed")
    v = core[len(a)]
    if not (isinstance(v, ast.If) and not v.orelse
            and [_d(s) for s in v.body] == [_d(s) for s in _parse_stmts(SOLVE_VERDICT_BODY)]):
        raise TranslateError("Z3Backend.solve: the verdict statement is not `if <test>: return False`: " + ast.unparse(v)[:200])
    return verdict_table(v.test)


def render_solve(tbl):
    b = lambda x: "true" if x else "false"      # noqa
    return ("(* GENERATED by harness/c01translate.py from cspuz/backend/z3.py::Z3Backend.solve -- do not edit *)\n"
            "From Cspuz Require Import Backend.Z3Check.\n"
            "Definition solve_returns_false_on (c : check_result) : bool :=\n"
            "  match c with\n  | CSat => %s\n  | CUnsat => %s\n  | CUnknown => %s\n  end.\n"
            % (b(tbl["sat"]), b(tbl["unsat"]), b(tbl["unknown"])))


def translate_solve(repo=None):
    repo = repo or vlib.REPO
    tbl = read_solve(os.path.join(repo, "cspuz", "backend", "z3.py"))
    vlib.write_if_changed(os.path.join(vlib.GEN, "Z3SolveTable.v"), render_solve(tbl))
    return tbl
