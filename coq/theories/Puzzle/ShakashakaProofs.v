(* C11 Tier 1 - shakashaka: for every board shape and every layout of white / black / numbered cells, the program
   posted by solve_shakashaka (model Shakashaka.v) admits exactly the triangle placements obeying Rules_shakashaka:
   pieces only in white cells, every number sees its number of triangles, and every white area is a rectangle
   (upright or at 45 degrees) in the sense of the executable bounding-box test of the rule file.
   The route:  posted program = clue part + local patterns at every lattice point (ShakashakaSem.v);
   local patterns everywhere -> every white area is an upright rectangle of whole cells (ShakashakaAxis.v) or a
   rectangle of whole diagonal squares (ShakashakaDiag.v);  conversely such areas force the local patterns
   (ShakashakaComplete.v);  the bounding-box test holds exactly for these two kinds of areas (ShakashakaRect.v). *)
From Coq Require Import ZArith List Bool Arith Lia.
From Cspuz Require Import Lib.PyErr Core.Expr Core.Program Graph.GraphModel Graph.ReachProofs Puzzle.PuzzleBase Puzzle.SatAbs
     Puzzle.ModelBase Puzzle.ModelLemmas Puzzle.Rules_shakashaka Puzzle.Shakashaka Puzzle.ShakashakaSem
     Puzzle.ShakashakaGeo Puzzle.ShakashakaAxis Puzzle.ShakashakaDiag Puzzle.ShakashakaSound Puzzle.ShakashakaComplete
     Puzzle.ShakashakaBridge Puzzle.ShakashakaCount Puzzle.ShakashakaRect.
Import ListNotations.
Local Open Scope nat_scope.

Theorem sk_geometry : sk_geometry_statement.
Proof.
  intros h w wc ans Hlen Hrange _.
  apply eq_true_iff_eq. rewrite (local_ok_Lok h w wc ans). unfold rect_rule. rewrite forallb_forall. split.
  - intros HL n Hn. apply in_seq in Hn. destruct (white_quarter wc ans n) eqn:Wn; [|reflexivity]. cbn [negb orb].
    apply (is_rectangle_iff h w wc ans Hrange n ltac:(lia) Wn).
    apply (sound_rect (cstZ h w wc ans) (Z.of_nat h) (Z.of_nat w) (cstZ_le h w wc ans Hrange) (cstZ_out h w wc ans) HL).
    + apply (wq_white h w wc ans Hrange n ltac:(lia)). exact Wn.
    + apply (Cq_dec h w wc ans Hrange n ltac:(lia)).
  - intros HR. apply (complete_Lok (cstZ h w wc ans) (cstZ_le h w wc ans Hrange)).
    intros s0 Ws0. destruct (white_white_board h w wc ans s0 Ws0) as [B1 [B2 B3]].
    destruct (dec_encZ h w s0 B1 B2 B3) as [D L].
    assert (Wn : white_quarter wc ans (encZ w s0) = true) by (apply (wq_white h w wc ans Hrange _ L); rewrite D; exact Ws0).
    specialize (HR (encZ w s0) ltac:(apply in_seq; lia)). rewrite Wn in HR. cbn [negb orb] in HR.
    apply (is_rectangle_iff h w wc ans Hrange (encZ w s0) L Wn) in HR. unfold Cq in HR. rewrite D in HR. exact HR.
Qed.

Theorem shakashaka_exact h w grid st ans :
  solve_shakashaka_model [[Z.of_nat h; Z.of_nat w]; grid] = Ok st ->
  ((exists en, model_of no_graph en st /\ reads st en (seq 0 (h * w)) = ans)
   <-> rules_shakashaka [[Z.of_nat h; Z.of_nat w]; grid] ans = true).
Proof. exact (shakashaka_reduction sk_geometry h w grid st ans). Qed.

Corollary shakashaka_exact_holds : shakashaka_exact_statement.
Proof. exact (shakashaka_reduction sk_geometry). Qed.

(* the model accepts every problem whose grid lists all cells (the theorem is not vacuous) *)
Example shakashaka_model_total h w grid :
  h * w <= length grid -> exists st, solve_shakashaka_model [[Z.of_nat h; Z.of_nat w]; grid] = Ok st.
Proof.
  intros H. unfold solve_shakashaka_model. destruct (dims2s h w [grid]) as [-> ->].
  change (sec [[Z.of_nat h; Z.of_nat w]; grid] 1) with grid.
  destruct (Nat.ltb_spec (length grid) (h * w)); [lia|]. eexists. reflexivity.
Qed.

