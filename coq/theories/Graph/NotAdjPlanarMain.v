(* C08: the planar-separation statement NotAdj.diag_equiv_statement, for every
   grid size (directions A and B of NotAdjPlanarA.v / NotAdjPlanarB.v), and
   what it gives for active_vertices_not_adjacent_and_not_segmenting: the
   specialised grid encoding is exactly "independent, and the inactive cells
   connected" on every h x w grid with h, w >= 2, and it accepts exactly what
   the explicit-graph form accepts on the grid graph for every h, w >= 1. *)
From Coq Require Import ZArith List Bool Arith Lia.
From Cspuz Require Import Lib.PyErr Core.Expr Core.Program Core.Build
  Graph.GraphModel Graph.ReachProofs Graph.Avc Graph.AvcProofs
  Graph.NotAdj Graph.NotAdjForest Graph.NotAdjDiag Graph.NotAdjSem Graph.NotAdjMain Graph.NotAdjCompose
  Graph.NotAdjPlanarGrid Graph.NotAdjPlanarA Graph.NotAdjPlanarB.
Import ListNotations.
Local Open Scope nat_scope.

(* on an independent pattern of a grid with h, w >= 2: the diagonal-adjacency
   graph on the active cells is a forest with at most one border cell per tree
   exactly when the inactive cells induce a connected subgraph *)
Theorem diag_equiv : diag_equiv_statement.
Proof.
  intros h w act Hh Hw Hind. split.
  - apply diag_equiv_dirA; assumption.
  - apply diag_equiv_dirB; assumption.
Qed.

Theorem not_segmenting_grid_exact cfg st h w l en :
  2 <= h -> 2 <= w ->
  length l = h * w -> (forall a, In a l -> is_boolexpr a = true) ->
  fresh_below (next_id st) l -> acts_defined en l ->
  exists st',
    post_not_segmenting cfg st (AArr2 h w l) None = (st', None) /\
    ((exists en', agree_below (next_id st) en en' /\
                  in_bounds_from en' (next_id st) (new_vars st st') = true /\
                  forallb (holds gsem_avc en') (new_cons st st') = true)
     <-> spec_not_segmenting (grid_graph h w) (pattern en l)).
Proof. apply not_segmenting_grid_exact_if_diag_equiv. exact diag_equiv. Qed.

Theorem grid_form_matches_graph_form st h w l en stg stx :
  1 <= h -> 1 <= w ->
  length l = h * w -> (forall a, In a l -> is_boolexpr a = true) ->
  fresh_below (next_id st) l -> acts_defined en l ->
  post_not_segmenting false st (AArr2 h w l) None = (stg, None) ->
  post_not_segmenting false st (AArr1 l) (Some (grid_graph h w)) = (stx, None) ->
  (completable st stg en <-> completable st stx en).
Proof.
  intros Hh Hw Hlen Hbx Hfr Hdef Hg Hx.
  assert (Hbool : forall a, In a l -> is_bool_expr_like a = true) by (intros a Ha; apply is_boolexpr_like, Hbx, Ha).
  pose proof (not_segmenting_graph_exact st l (grid_graph h w) stx en (grid_wf h w) Hlen Hbool Hfr Hdef Hx) as Hgx.
  unfold completable. rewrite Hgx.
  destruct (Nat.eq_dec h 1) as [H1|H1]; [apply (not_segmenting_line_exact st h w l stg en); auto|].
  destruct (Nat.eq_dec w 1) as [W1|W1]; [apply (not_segmenting_line_exact st h w l stg en); auto|].
  destruct (not_segmenting_grid_exact false st h w l en ltac:(lia) ltac:(lia) Hlen Hbx Hfr Hdef)
    as [st' [Hp Hex]].
  rewrite Hg in Hp. inversion Hp; subst st'. exact Hex.
Qed.

(* ---- the hypotheses are satisfiable, and both sides of the equivalence occur *)

(* 3 x 3, centre cell active: independent, a one-vertex diagonal forest, and the
   eight inactive cells are connected *)
Example diag_equiv_example_accept :
  let act := fun v => Nat.eqb v 4 in
  independent (grid_graph 3 3) act /\ spec_diag 3 3 act /\ connected (grid_graph 3 3) (inactive act).
Proof.
  intros act.
  assert (Hi : independent (grid_graph 3 3) act) by (apply independent_b_iff; vm_compute; reflexivity).
  assert (Hs : spec_diag 3 3 act) by (apply spec_diag_b_spec; vm_compute; reflexivity).
  split; [exact Hi|]. split; [exact Hs|]. apply (diag_equiv 3 3 act); [lia|lia|exact Hi|exact Hs].
Qed.

(* 3 x 3, the four edge midpoints active: independent, a diagonal 4-cycle, and
   the centre cell is cut off from the corners *)
Example diag_equiv_example_reject :
  let act := fun v => Nat.eqb v 1 || Nat.eqb v 3 || Nat.eqb v 5 || Nat.eqb v 7 in
  independent (grid_graph 3 3) act /\ ~ spec_diag 3 3 act /\ ~ connected (grid_graph 3 3) (inactive act).
Proof.
  intros act.
  assert (Hi : independent (grid_graph 3 3) act) by (apply independent_b_iff; vm_compute; reflexivity).
  assert (Hs : ~ spec_diag 3 3 act).
  { intros H. apply spec_diag_b_spec in H. vm_compute in H. discriminate. }
  split; [exact Hi|]. split; [exact Hs|]. intros Hc. apply Hs. apply (diag_equiv 3 3 act); [lia|lia|exact Hi|exact Hc].
Qed.
