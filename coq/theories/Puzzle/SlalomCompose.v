(* C11 Tier 1 - composition with property C06 for cspuz/puzzle/slalom.py: TWO frames are declared before the call
   graph.active_edges_single_cycle(solver, loop) (the second one, loop_dir, is not an answer key and is not passed to the
   helper), further integer and boolean variables are declared after it, and the constraints posted afterwards speak about
   both frames and the later variables (the array the helper returns is not used).
     sl_cycle_shape : the call succeeds on every frame; the state after it, explicitly, and its well-formedness
     sl_compose     : the answer-key readings of the final program are the 0/1 vectors that are a single loop on
                      PuzzleBase.lattice (fh+1) (fw+1) and satisfy [local], when (a) every model of the later
                      constraints whose first frame is a single loop satisfies [local] and (b) for every single loop
                      satisfying [local] there are values of loop_dir and of the later variables that make the later
                      constraints true.
   Ingredients: C06's closed theorems cycle_frame / cycle_frame_exact, the shape lemma post_cycle_enc_shape, the
   well-formedness lemma WfLemmas.post_cycle_wf (the state after the call only mentions variables declared so far, hence
   its models do not depend on later variables: ExprFacts.holds_agree), CycleCompose.frame_lattice. *)
From Coq Require Import ZArith List Bool Arith Lia.
From Cspuz Require Import Lib.PyErr Core.Expr Core.Program Graph.GraphModel
     Graph.Cycle Graph.CycleLemmas Graph.CycleProofs Graph.CycleMain Graph.CycleFrame Graph.CycleSpec
     Backend.ExprFacts Backend.Z3SolveProofs Backend.SolveZ3Proofs
     Puzzle.PuzzleBase Puzzle.SatAbs Puzzle.ModelBase Puzzle.ModelLemmas Puzzle.CreekProofs Puzzle.WfLemmas
     Puzzle.CycleFrameBase Puzzle.CycleCompose Puzzle.Rules_slalom Puzzle.Slalom.
Import ListNotations.
Local Open Scope nat_scope.

Notation b2z := PuzzleBase.b2z.

Section Compose.
  Variables fh fw : nat.
  Let N := frame_n fh fw.
  Let nvs := S fh * S fw.
  Let hor := frame_hor fh fw.
  Let ver := frame_ver fh fw.
  Let fe := frame_edges fh fw hor ver.
  Let G := frame_graph fh fw hor ver.
  Let st0 := sl_state0 fh fw.
  Let L := lattice (S fh) (S fw).

  Definition sl_aux_decls : list vdecl :=
    repeat DBool nvs ++ repeat (DInt 0 (Z.of_nat nvs - 1)) nvs ++ repeat DBool nvs.

  Lemma sl_next0 : next_id st0 = N + N.
  Proof. unfold next_id, st0, sl_state0. simpl. apply repeat_length. Qed.

  Lemma sl_fe_var e : In e fe -> exists k, k < N /\ e = BVar k.
  Proof.
    intros He. apply (frame_edges_in fh fw _ _ (frame_hor_length fh fw) (frame_ver_length fh fw)) in He.
    destruct He as [He|He]; apply in_map_iff in He; destruct He as [k [<- Hk]]; apply in_seq in Hk;
      exists k; (split; [unfold N, frame_n; lia|reflexivity]).
  Qed.

  Lemma sl_flags_ok en : flags_ok no_graph st0 en (hor ++ ver).
  Proof.
    intros e He. apply in_app_iff in He.
    destruct He as [He|He]; apply in_map_iff in He; destruct He as [k [<- Hk]]; apply in_seq in Hk;
      (split; [reflexivity|]; split; [rewrite sl_next0; unfold N, frame_n; simpl; lia|]; eexists; reflexivity).
  Qed.

  Lemma sl_in_bounds0 en : in_bounds en st0 = true.
  Proof. unfold in_bounds, st0, sl_state0. simpl. apply in_bounds_from_bools. Qed.

  Lemma sl_cycle_shape :
    exists st1, sl_cycle fh fw = Ok (st1, P2 (S fh) (S fw) (map BVar (seq (N + N) nvs))) /\
      vars st1 = repeat DBool (N + N) ++ sl_aux_decls /\
      keys st1 = (repeat true N ++ repeat false N) ++ repeat false nvs ++ repeat false nvs ++ repeat false nvs /\
      wf_state st1 /\ wf_keys st1 /\ next_id st1 = N + N + 3 * nvs.
  Proof.
    unfold sl_cycle.
    destruct (CycleFrame.cycle_frame fh fw _ _ (frame_hor_length fh fw) (frame_ver_length fh fw))
      as [_ [Hnv [Hwf [Hlen [_ [Hc _]]]]]].
    rewrite Hc. fold hor ver fe G in Hnv, Hwf, Hlen |- *.
    assert (Hcl : forall e, In e fe -> is_constraint_like e = true).
    { intros e He. destruct (sl_fe_var e He) as [k [_ ->]]. reflexivity. }
    destruct (post_cycle_enc_shape fe G (N + N) Hwf ltac:(rewrite Hlen; apply le_n) Hcl (sl_state0 fh fw) sl_next0
                ltac:(rewrite Hnv; simpl; lia)) as [st' [Hp _]].
    rewrite Hp. exists st'.
    destruct (post_cycle_wf _ _ _ _ _ Hp) as [[W K] [Hv [Hk Hpass]]].
    - reflexivity.
    - unfold wf_keys, sl_state0; simpl. rewrite app_length, !repeat_length. reflexivity.
    - simpl. apply forallb_In. intros e He. destruct (sl_fe_var e He) as [k [Hk ->]].
      apply ok_bvar_repeat. fold N. lia.
    - rewrite Hnv in Hv, Hk, Hpass. simpl vars in Hv. simpl keys in Hk. fold N nvs in Hv, Hk, Hpass.
      split; [|split; [exact Hv|split; [exact Hk|split; [exact W|split; [exact K|]]]]].
      + rewrite Hpass. fold st0. rewrite sl_next0. reflexivity.
      + unfold next_id. rewrite Hv. unfold sl_aux_decls. rewrite !app_length, !repeat_length. lia.
  Qed.

  (* the models of the state after the call do not look at variables declared later *)
  Lemma sl_closed st1 e1 e2 :
    wf_state st1 -> agree_below (next_id st1) e1 e2 -> model_of no_graph e1 st1 -> model_of no_graph e2 st1.
  Proof.
    intros W Hag [Hb Hs].
    assert (A : agree_on (vars st1) e1 e2).
    { intros i d Hi. assert (Hlt : i < next_id st1) by (unfold next_id; apply nth_error_Some; rewrite Hi; discriminate).
      destruct (Hag i Hlt) as [E1 E2]. destruct d; simpl; congruence. }
    split.
    - unfold in_bounds. rewrite <- (in_bounds_agree _ _ _ A). exact Hb.
    - unfold satisfies in *. rewrite forallb_forall in *. intros c Hc.
      unfold wf_state, wf_cons in W. rewrite forallb_forall in W. specialize (W c Hc).
      apply andb_prop in W. destruct W as [_ R].
      rewrite <- (holds_agree _ _ _ _ R A). apply Hs. exact Hc.
  Qed.

  Definition sl_merge (B : nat) (a later : env) : env :=
    {| eb := fun i => if i <? B then eb a i else eb later i;
       ei := fun i => if i <? B then ei a i else ei later i |}.

  Theorem sl_compose (more : list vdecl) (extra : list expr) (local : answer -> bool) st1 res st ans :
    sl_cycle fh fw = Ok (st1, res) ->
    vars st = vars st1 ++ more ->
    Program.cons st = Program.cons st1 ++ extra ->
    (forall en, single_loop_b L (fun k => isb (getz (map (fun i => b2z (eb en i)) (seq 0 N)) k)) = true ->
       in_bounds_from en (next_id st1) more = true -> forallb (holds no_graph en) extra = true ->
       local (map (fun i => b2z (eb en i)) (seq 0 N)) = true) ->
    (forall a, length a = N -> forallb is01 a = true ->
       single_loop_b L (fun k => isb (getz a k)) = true -> local a = true ->
       exists (dirv : nat -> bool) (later : env), forall en,
         (forall k, k < N -> eb en k = isb (getz a k)) ->
         (forall k, k < N -> eb en (N + k) = dirv k) ->
         (forall i, next_id st1 <= i -> eb en i = eb later i /\ ei en i = ei later i) ->
         in_bounds_from en (next_id st1) more = true /\ forallb (holds no_graph en) extra = true) ->
    ((exists en, model_of no_graph en st /\ reads st en (seq 0 N) = ans)
     <-> Nat.eqb (length ans) N && forallb is01 ans &&
         single_loop_b L (fun k => isb (getz ans k)) && local ans = true).
  Proof.
    intros Hcall Hvars Hcons Hsound Hcomp.
    destruct sl_cycle_shape as [st1' [Hcall' [Hv [_ [W [_ HB]]]]]].
    rewrite Hcall in Hcall'. inversion Hcall'; subst st1' res. clear Hcall'.
    set (B := next_id st1) in *.
    assert (HLlen : length (edges L) = N) by apply lattice_edges_length.
    assert (Hsplit : forall en, model_of no_graph en st <->
              (model_of no_graph en st1 /\ in_bounds_from en B more = true /\
               forallb (holds no_graph en) extra = true)).
    { intros en. unfold model_of, in_bounds, satisfies. rewrite Hvars, Hcons.
      rewrite in_bounds_from_app, forallb_app, !andb_true_iff. simpl. fold (next_id st1). fold B. tauto. }
    assert (Hreads : forall en, reads st en (seq 0 N) = map (fun i => b2z (eb en i)) (seq 0 N)).
    { intros en. eapply reads_bool_prefix. rewrite Hvars, Hv, repeat_app, <- !app_assoc. reflexivity. }
    assert (Hself : forall en, model_of no_graph en st1 -> extends_sat no_graph st0 st1 en en).
    { intros en [H1 H2]. split; [intros i _; split; reflexivity|]. split; [exact H1|exact H2]. }
    assert (C6 : forall en,
       (exists en', extends_sat no_graph st0 st1 en en') <-> single_loop_b L (eb en) = true).
    { intros en.
      destruct (CycleFrame.cycle_frame_exact fh fw hor ver (frame_hor_length fh fw) (frame_ver_length fh fw)
                  no_graph st0 en st1 _ (sl_flags_ok en) (sl_in_bounds0 en) Hcall) as [p [_ [_ [EX _]]]].
      destruct (frame_lattice fh fw no_graph en) as [FL1 _]. fold hor ver L in FL1.
      rewrite <- FL1. exact EX. }
    assert (Hread_on : forall en k, k < N ->
              isb (getz (map (fun i => b2z (eb en i)) (seq 0 N)) k) = eb en k).
    { intros en k Hk. rewrite getz_map_seq by exact Hk. apply b2z_isb. }
    split.
    - intros [en [Hm Hr]]. rewrite Hreads in Hr. subst ans.
      apply Hsplit in Hm. destruct Hm as [Hm1 [Hb Hcl]].
      replace (Nat.eqb (length (map (fun i => b2z (eb en i)) (seq 0 N))) N) with true
        by (rewrite map_length, seq_length; symmetry; apply Nat.eqb_refl).
      replace (forallb is01 (map (fun i => b2z (eb en i)) (seq 0 N))) with true
        by (rewrite forallb_map; symmetry; apply forallb_forall; intros; apply is01_b2z).
      simpl andb. apply andb_true_iff.
      assert (Hloop : single_loop_b L (eb en) = true).
      { apply C6. exists en. apply Hself. exact Hm1. }
      assert (Hloop' : single_loop_b L (fun k => isb (getz (map (fun i => b2z (eb en i)) (seq 0 N)) k)) = true).
      { apply (single_loop_b_ext L (eb en) _ (lattice_wf fh fw)); [|exact Hloop].
        intros k Hk. rewrite HLlen in Hk. symmetry. apply Hread_on. exact Hk. }
      split; [exact Hloop'|]. apply Hsound; assumption.
    - intros Hr.
      apply andb_true_iff in Hr. destruct Hr as [Hr Hcl].
      apply andb_true_iff in Hr. destruct Hr as [Hr Hloop].
      apply andb_true_iff in Hr. destruct Hr as [Hlen H01]. apply Nat.eqb_eq in Hlen.
      destruct (Hcomp ans Hlen H01 Hloop Hcl) as [dirv [later Hlater]].
      set (en0 := {| eb := fun i => if i <? N then isb (getz ans i) else dirv (i - N); ei := fun _ => 0%Z |}).
      assert (Hloop0 : single_loop_b L (eb en0) = true).
      { apply (single_loop_b_ext L (fun k => isb (getz ans k)) _ (lattice_wf fh fw)); [|exact Hloop].
        intros k Hk. rewrite HLlen in Hk. simpl. destruct (Nat.ltb_spec k N); [reflexivity|lia]. }
      destruct (proj2 (C6 en0) Hloop0) as [en' He].
      pose proof He as [Hag [Hib Hnc]]. fold st0 in Hag. rewrite sl_next0 in Hag.
      set (en3 := sl_merge B en' later).
      assert (Hag3 : agree_below B en' en3).
      { intros i Hi. simpl. destruct (Nat.ltb_spec i B); [split; reflexivity|lia]. }
      assert (HBN : N + N <= B) by lia.
      assert (Hm1 : model_of no_graph en3 st1).
      { apply (sl_closed st1 en' en3 W Hag3). split; [exact Hib|].
        unfold satisfies. unfold new_cons in Hnc.
        replace (Program.cons st1) with (skipn (length (Program.cons st0)) (Program.cons st1)); [exact Hnc|].
        reflexivity. }
      assert (Hlow : forall k, k < N -> eb en3 k = isb (getz ans k)).
      { intros k Hk. simpl. destruct (Nat.ltb_spec k B); [|lia].
        destruct (Hag k ltac:(lia)) as [E _]. rewrite <- E. simpl.
        destruct (Nat.ltb_spec k N); [reflexivity|lia]. }
      assert (Hdir : forall k, k < N -> eb en3 (N + k) = dirv k).
      { intros k Hk. simpl. destruct (Nat.ltb_spec (N + k) B); [|lia].
        destruct (Hag (N + k) ltac:(lia)) as [E _]. rewrite <- E. simpl.
        destruct (Nat.ltb_spec (N + k) N); [lia|]. f_equal. lia. }
      assert (Hlat : forall i, B <= i -> eb en3 i = eb later i /\ ei en3 i = ei later i).
      { intros i Hi. simpl. destruct (Nat.ltb_spec i B); [lia|]. split; reflexivity. }
      destruct (Hlater en3 Hlow Hdir Hlat) as [Hb3 Hx3].
      exists en3. split.
      + apply Hsplit. split; [exact Hm1|]. split; assumption.
      + rewrite Hreads. etransitivity; [|apply map_getz_seq]. rewrite Hlen.
        apply map_ext_in. intros i Hi. apply in_seq in Hi. rewrite Hlow by lia.
        apply isb_is01. rewrite forallb_forall in H01. apply H01. unfold getz. apply nth_In. lia.
  Qed.
End Compose.
