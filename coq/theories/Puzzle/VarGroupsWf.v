(* C11: well-formedness of the programs posted by the helpers of Graph/VarGroups.v (the model of property C07):
   post_vargroups (every group_size form), post_with_borders, division_connected_variable_groups and
   division_connected_variable_groups_with_borders on the auxiliary-variable route.  Same shape as
   WfLemmas.post_division_wf: the state after the call is well formed, its declarations are the old ones followed by
   the helper's blocks, none of the new variables is an answer key. *)
From Coq Require Import ZArith List Bool Arith Lia.
From Cspuz Require Import Lib.PyErr Core.Expr Core.Program Core.Build Graph.GraphModel Graph.ReachProofs
     Backend.Z3SolveProofs Backend.SolveZ3Proofs
     Graph.VarGroups Graph.VarGroupsEval Graph.VarGroupsMain Graph.VarGroupsSized
     Puzzle.WfLemmas.
Import ListNotations.
Local Open Scope nat_scope.

Notation znat := VarGroups.zn.

(* ---------------------------------------------------------------- lists of variables *)
Lemma ok_ivars pre lo hi n post :
  forallb (ok (pre ++ repeat (DInt lo hi) n ++ post) false) (ivars (length pre) n lo hi) = true.
Proof.
  unfold ivars. rewrite forallb_map'. apply forallb_seq. intros i Hi. apply ok_ivar_block. lia.
Qed.
Lemma ok_bvars pre n post :
  forallb (ok (pre ++ repeat DBool n ++ post) true) (bvars (length pre) n) = true.
Proof.
  unfold bvars. rewrite forallb_map'. apply forallb_seq. intros i Hi. apply ok_bvar_block. lia.
Qed.

Lemma ok_ivars_nth vs kk n lo hi : (forall i, i < n -> nth_error vs (kk + i) = Some (DInt lo hi)) ->
  forallb (ok vs false) (ivars kk n lo hi) = true.
Proof.
  intros H. unfold ivars. rewrite forallb_map'. apply forallb_seq. intros i Hi.
  rewrite ok_ivar, H by lia. rewrite !Z.eqb_refl. reflexivity.
Qed.
Lemma ok_bvars_nth vs kk n : (forall i, i < n -> nth_error vs (kk + i) = Some DBool) ->
  forallb (ok vs true) (bvars kk n) = true.
Proof.
  intros H. unfold bvars. rewrite forallb_map'. apply forallb_seq. intros i Hi. rewrite ok_bvar, H by lia. reflexivity.
Qed.

(* the declaration at an index of a chain  pre ++ repeat d1 n1 ++ repeat d2 n2 ++ ... *)
Ltac nth_block :=
  unfold next_id; rewrite <- ?app_assoc;
  repeat (rewrite nth_error_app2 by (rewrite ?repeat_length; lia); rewrite ?repeat_length);
  try (rewrite nth_error_app1 by (rewrite repeat_length; lia));
  apply nth_error_repeat; lia.

Lemma at_ok vs b l i : forallb (ok vs b) l = true -> i < length l -> ok vs b (at_ l i) = true.
Proof. intros H Hi. rewrite forallb_forall in H. apply H. unfold at_. apply nth_In. exact Hi. Qed.

Lemma incident_lt g i j e : wf_graph g = true -> In (j, e) (incident g i) -> j < nv g /\ e < length (edges g).
Proof.
  intros Hwf H. apply incident_spec in H.
  destruct H as [H|H]; pose proof (nth_error_lt _ _ _ H) as He; destruct (wf_graph_edge g e _ _ Hwf H); split; assumption.
Qed.

Lemma ok_count_true_nodes vs l : forallb (ok vs true) l = true -> ok vs false (count_true_nodes l) = true.
Proof.
  intros H. unfold count_true_nodes. destruct l as [|a r] eqn:E; [reflexivity|]. rewrite <- E in *.
  rewrite ok_add_map by (subst; discriminate). rewrite forallb_forall in H. apply forallb_In. intros x Hx.
  unfold i_cond. rewrite ok_cond. apply H. exact Hx.
Qed.

Lemma ok_py_sum vs l : forallb (ok vs false) l = true -> ok vs false (py_sum l) = true.
Proof.
  unfold py_sum. assert (G : forall acc, ok vs false acc = true -> forallb (ok vs false) l = true ->
                             ok vs false (fold_left (fun acc x => i_add acc x) l acc) = true).
  { induction l as [|x l IH]; intros acc Ha Hl; [exact Ha|]. simpl in Hl. apply andb_prop in Hl. destruct Hl as [Hx Hl].
    simpl. apply IH; [|exact Hl]. unfold i_add. rewrite ok_add. simpl. rewrite Ha, Hx. reflexivity. }
  apply G. reflexivity.
Qed.
Lemma ok_sum_plus1 vs l : forallb (ok vs false) l = true -> ok vs false (sum_plus1 l) = true.
Proof.
  intros H. unfold sum_plus1. destruct l as [|a r] eqn:E; [reflexivity|]. rewrite <- E in *.
  unfold i_add. rewrite ok_add. simpl. rewrite (ok_py_sum vs l H). reflexivity.
Qed.

(* ---------------------------------------------------------------- the group_size argument *)
(* a size item: a Python bool is never an operand; everything else must be an integer tree; None = no size *)
Definition sz_ok (vs : list vdecl) (e : expr) : bool :=
  match e with PyBool _ => true | _ => ok vs false e end.
Definition opt_ok (vs : list vdecl) (e : expr) : bool :=
  match e with PyNone => true | _ => sz_ok vs e end.
Definition gs_ok (vs : list vdecl) (gs : gs1) : Prop :=
  match gs with
  | G1Scalar e => opt_ok vs e = true
  | G1Seq l => forallb (opt_ok vs) l = true
  | _ => True
  end.

Lemma opt_ok_of_ok vs l : forallb (ok vs false) l = true -> forallb (opt_ok vs) l = true.
Proof.
  rewrite !forallb_forall. intros H e He. specialize (H e He). destruct e; try exact H; reflexivity.
Qed.

Lemma opt_ok_more vs more e : opt_ok vs e = true -> opt_ok (vs ++ more) e = true.
Proof. destruct e; simpl; intros H; try reflexivity; apply ok_more; exact H. Qed.
Lemma gs_ok_more vs more gs : gs_ok vs gs -> gs_ok (vs ++ more) gs.
Proof.
  destruct gs as [|e|l|e]; simpl; intros H; try exact I.
  - apply opt_ok_more. exact H.
  - rewrite forallb_forall in *. intros x Hx. apply opt_ok_more. apply H. exact Hx.
Qed.

Lemma size_at_ok vs gs i s : gs_ok vs gs -> size_at gs i = Ok (Some s) -> sz_ok vs s = true.
Proof.
  destruct gs as [|e|l|e]; simpl; intros Hg H; try discriminate.
  - destruct e; simpl in H; try discriminate; inversion H; subst; exact Hg.
  - destruct (nth_error l i) as [x|] eqn:E; [|discriminate].
    rewrite forallb_forall in Hg. specialize (Hg x (nth_error_In _ _ E)).
    destruct x; simpl in H; try discriminate; inversion H; subst; exact Hg.
Qed.

Lemma c_size_ok vs t s : ok vs false t = true -> match s with Some e => sz_ok vs e = true | None => True end ->
  forallb (ok vs true) (c_size t s) = true.
Proof.
  intros Ht Hs. destruct s as [e|]; [|reflexivity].
  destruct e; simpl in *; try reflexivity; try discriminate;
    unfold i_eq; rewrite ok_eq, Ht; simpl; rewrite ?andb_true_r; try exact Hs; reflexivity.
Qed.

(* ---------------------------------------------------------------- the constraint builders *)
Section Pieces.
  Variables (vs : list vdecl) (g : graph).
  Hypothesis Hwf : wf_graph g = true.
  Let n := nv g.
  Let m := length (edges g).
  Variables gid rank root act : list expr.
  Hypothesis Hgid : forallb (ok vs false) gid = true.
  Hypothesis Hrank : forallb (ok vs false) rank = true.
  Hypothesis Hroot : forallb (ok vs true) root = true.
  Hypothesis Hact : forallb (ok vs true) act = true.
  Hypothesis Lgid : length gid = n.
  Hypothesis Lrank : length rank = n.
  Hypothesis Lroot : length root = n.
  Hypothesis Lact : length act = m.

  Lemma c_rootrank_ok : forallb (ok vs true) (c_rootrank root rank) = true.
  Proof using Hroot Hrank.
    unfold c_rootrank. rewrite forallb_map'. apply forallb_In. intros [r k] Hin.
    pose proof (in_combine_l _ _ _ _ Hin) as Hr. pose proof (in_combine_r _ _ _ _ Hin) as Hk.
    rewrite forallb_forall in Hroot, Hrank.
    unfold b_iff, i_eq. rewrite ok_iff, ok_eq, (Hroot r Hr), (Hrank k Hk). reflexivity.
  Qed.

  Lemma c_vertex_ok i : i < n -> forallb (ok vs true) (c_vertex g gid rank root act i) = true.
  Proof using Hwf Hgid Hrank Hroot Hact Lgid Lrank Lroot Lact.
    intros Hi. unfold c_vertex. rewrite !forallb_app. cbn [forallb]. rewrite !andb_true_r.
    assert (Ri : ok vs true (at_ root i) = true) by (apply at_ok; [exact Hroot|lia]).
    assert (Gi : ok vs false (at_ gid i) = true) by (apply at_ok; [exact Hgid|lia]).
    assert (Ki : ok vs false (at_ rank i) = true) by (apply at_ok; [exact Hrank|lia]).
    apply andb_true_intro; split; [|apply andb_true_intro; split].
    - unfold b_imp, i_eq. rewrite ok_imp, ok_eq, Ri, Gi. reflexivity.
    - rewrite forallb_map'. apply forallb_In. intros [j e] Hin. destruct (incident_lt g i j e Hwf Hin) as [Hj He].
      unfold b_imp, i_ne. rewrite ok_imp, ok_ne, Ki.
      rewrite (at_ok vs true act e Hact) by lia. rewrite (at_ok vs false rank j Hrank) by lia. reflexivity.
    - unfold i_eq, i_cond. rewrite ok_eq, ok_if, Ri. simpl. rewrite andb_true_r. apply ok_count_true_nodes.
      rewrite forallb_map'. apply forallb_In. intros [j e] Hin. destruct (incident_lt g i j e Hwf Hin) as [Hj He].
      unfold b_and, i_lt. rewrite ok_and. cbn [forallb]. rewrite ok_lt, Ki.
      rewrite (at_ok vs true act e Hact) by lia. rewrite (at_ok vs false rank j Hrank) by lia. reflexivity.
  Qed.

  Lemma c_edges_eq_ok xs : forallb (ok vs false) xs = true -> length xs = n ->
    forallb (ok vs true) (c_edges_eq g act xs) = true.
  Proof using Hwf Hact Lact.
    clear Lgid Lrank Lroot Hgid Hrank Hroot.
    intros Hxs Lxs. unfold c_edges_eq. rewrite forallb_map'. apply forallb_In. intros [k [u v]] Hin.
    pose proof (in_combine_l _ _ _ _ Hin) as Hk. apply in_seq in Hk.
    pose proof (in_combine_r _ _ _ _ Hin) as He. apply In_nth_error in He. destruct He as [k' He].
    destruct (wf_graph_edge g k' u v Hwf He) as [Hu Hv].
    unfold b_imp, i_eq. rewrite ok_imp, ok_eq.
    rewrite (at_ok vs true act k Hact) by (fold m in Hk; lia).
    rewrite !(at_ok vs false xs _ Hxs) by lia. reflexivity.
  Qed.

  Lemma main_pieces_ok :
    forallb (ok vs true) (c_rootrank root rank ++ flat_map (c_vertex g gid rank root act) (seq 0 n) ++ c_edges_eq g act gid) = true.
  Proof using Hwf Hgid Hrank Hroot Hact Lgid Lrank Lroot Lact.
    rewrite !forallb_app, c_rootrank_ok, (c_edges_eq_ok gid Hgid Lgid), andb_true_r. cbn [andb].
    rewrite forallb_flat_map. apply forallb_seq. intros i Hi. apply c_vertex_ok. lia.
  Qed.

  Variables ds ts : list expr.
  Hypothesis Hds : forallb (ok vs false) ds = true.
  Hypothesis Hts : forallb (ok vs false) ts = true.
  Hypothesis Lds : length ds = n.
  Hypothesis Lts : length ts = n.

  Lemma c_sized_head_ok : forallb (ok vs true) (c_sized_head root ds ts) = true.
  Proof using Hroot Hds Hts.
    unfold c_sized_head, map2. rewrite forallb_app, !forallb_map'. rewrite forallb_forall in Hds, Hts, Hroot.
    apply andb_true_intro; split; apply forallb_In.
    - intros [d t] Hin. unfold i_le. rewrite ok_le.
      rewrite (Hds d (in_combine_l _ _ _ _ Hin)), (Hts t (in_combine_r _ _ _ _ Hin)). reflexivity.
    - intros [r [d t]] Hin. pose proof (in_combine_r _ _ _ _ Hin) as Hdt.
      unfold b_imp, i_eq. rewrite ok_imp, ok_eq, (Hroot r (in_combine_l _ _ _ _ Hin)).
      rewrite (Hds d (in_combine_l _ _ _ _ Hdt)), (Hts t (in_combine_r _ _ _ _ Hdt)). reflexivity.
  Qed.

  Lemma c_down_ok i : i < n -> ok vs true (c_down g rank act ds i) = true.
  Proof using Hwf Hrank Hact Hds Lrank Lact Lds.
    clear Lgid Lroot Lts.
    intros Hi. unfold c_down, i_eq. rewrite ok_eq. rewrite (at_ok vs false ds i Hds) by lia. cbn [andb].
    apply ok_sum_plus1. rewrite forallb_map'. apply forallb_In. intros [j e] Hin.
    destruct (incident_lt g i j e Hwf Hin) as [Hj He].
    unfold i_cond, b_and, i_gt. rewrite ok_if, ok_and. cbn [forallb]. rewrite ok_gt.
    rewrite (at_ok vs true act e Hact) by lia. rewrite !(at_ok vs false rank _ Hrank) by lia.
    rewrite (at_ok vs false ds j Hds) by lia. reflexivity.
  Qed.

  Lemma c_sized_vertex_ok gs i cs : gs_ok vs gs -> i < n ->
    c_sized_vertex g gs rank act ds ts i = Ok cs -> forallb (ok vs true) cs = true.
  Proof using Hwf Hrank Hact Hds Hts Lrank Lact Lds Lts.
    clear Lgid Lroot.
    intros Hg Hi H. unfold c_sized_vertex in H. destruct (size_at gs i) as [s|] eqn:E; [|discriminate].
    cbn [bind] in H. inversion H; subst cs. cbn [forallb]. rewrite (c_down_ok i Hi). cbn [andb].
    apply c_size_ok; [apply at_ok; [exact Hts|lia]|].
    destruct s as [e|]; [|exact I]. exact (size_at_ok vs gs i e Hg E).
  Qed.

  (* is_border[k] == (group_id[u] != group_id[v]) *)
  Lemma c_borders_ok bd : forallb (ok vs true) bd = true -> length bd = m ->
    forallb (ok vs true) (c_borders g gid bd) = true.
  Proof using Hwf Hgid Lgid.
    clear Lrank Lroot Lact Lds Lts.
    intros Hbd Lbd. unfold c_borders. rewrite forallb_map'. apply forallb_In. intros [k [u v]] Hin.
    pose proof (in_combine_l _ _ _ _ Hin) as Hk. apply in_seq in Hk.
    pose proof (in_combine_r _ _ _ _ Hin) as He. apply In_nth_error in He. destruct He as [k' He].
    destruct (wf_graph_edge g k' u v Hwf He) as [Hu Hv].
    assert (Hb : ok vs true (at_ bd k) = true) by (apply at_ok; [exact Hbd|fold m in Hk; lia]).
    assert (Hne : ok vs true (i_ne (at_ gid u) (at_ gid v)) = true).
    { unfold i_ne. rewrite ok_ne, !(at_ok vs false gid _ Hgid) by lia. reflexivity. }
    unfold c_border. destruct (at_ bd k); try reflexivity; unfold b_iff; rewrite ok_iff, Hne, ?Hb; reflexivity.
  Qed.
End Pieces.

(* ---------------------------------------------------------------- post_vargroups *)
Lemma wf_add_decls st ds : wf_state st -> wf_keys st -> wf_state (add_decls st ds) /\ wf_keys (add_decls st ds).
Proof.
  intros W K. split.
  - unfold wf_state, add_decls; simpl. apply wf_cons_more. exact W.
  - unfold wf_keys, add_decls in *; simpl. rewrite !app_length, repeat_length, K. reflexivity.
Qed.

(* the declarations of the size part: none when group_size is absent *)
Definition vg_more (g : graph) (gs : gs1) : list vdecl := if gs_absent gs then [] else sized_decls g.

Theorem post_vargroups_wf st g gs st' gid :
  post_vargroups st g gs = Ok (st', gid) ->
  wf_graph g = true -> wf_state st -> wf_keys st -> gs_ok (vars st) gs ->
  (wf_state st' /\ wf_keys st') /\
  vars st' = vars st ++ main_decls g ++ vg_more g gs /\
  keys st' = keys st ++ repeat false (length (main_decls g ++ vg_more g gs)) /\
  gid = main_gid st g.
Proof.
  intros H Hwf W K Hgs. unfold post_vargroups in H.
  unfold int_array in H. destruct (znat (nv g) - 1 <? 0)%Z; [discriminate|].
  rewrite int_vars_spec in H. cbn [bind] in H. rewrite int_vars_spec in H. cbn [bind] in H.
  unfold bool_array in H. rewrite bool_vars_spec in H. cbn [bind] in H. rewrite bool_vars_spec in H. cbn [bind] in H.
  rewrite !add_decls_app, !next_id_add_decls, !app_length, !repeat_length, !ensure_ensure in H.
  set (n := nv g) in *. set (m := length (edges g)) in *. set (k := next_id st) in *.
  set (hi := (znat n - 1)%Z) in *.
  set (gidl := ivars k n 0 hi) in *. set (rank := ivars (k + n) n 0 hi) in *.
  set (root := bvars (k + (n + n)) n) in *. set (act := bvars (k + (n + n + n)) m) in *.
  set (md := repeat (DInt 0 hi) n ++ repeat (DInt 0 hi) n ++ repeat DBool n ++ repeat DBool m) in *.
  set (mc := c_rootrank root rank ++ flat_map (c_vertex g gidl rank root act) (seq 0 n) ++ c_edges_eq g act gidl) in *.
  assert (Lmd : length md = n + n + n + m) by (unfold md; rewrite !app_length, !repeat_length; lia).
  assert (Og : forall more, forallb (ok (vars st ++ md ++ more) false) gidl = true).
  { intros more. apply ok_ivars_nth. intros i Hi. unfold md, k. nth_block. }
  assert (Ok_ : forall more, forallb (ok (vars st ++ md ++ more) false) rank = true).
  { intros more. apply ok_ivars_nth. intros i Hi. unfold md, k. nth_block. }
  assert (Or : forall more, forallb (ok (vars st ++ md ++ more) true) root = true).
  { intros more. apply ok_bvars_nth. intros i Hi. unfold md, k. nth_block. }
  assert (Oa : forall more, forallb (ok (vars st ++ md ++ more) true) act = true).
  { intros more. apply ok_bvars_nth. intros i Hi. unfold md, k. nth_block. }
  assert (Omain : forall more, forallb (ok (vars st ++ md ++ more) true) mc = true).
  { intros more. apply main_pieces_ok; auto; unfold gidl, rank, root, act, ivars, bvars; rewrite map_length, seq_length; reflexivity. }
  destruct (gs_absent gs) eqn:Eab.
  - inversion H; subst st' gid. clear H. unfold vg_more. rewrite Eab, app_nil_r.
    change (main_decls g) with md.
    split; [split|split; [reflexivity|split; reflexivity]].
    + unfold wf_state. cbn [vars Program.cons ensure add_decls]. apply wf_cons_app; [apply wf_cons_more; exact W|].
      specialize (Omain []). rewrite app_nil_r in Omain. exact Omain.
    + unfold wf_keys in *. cbn [vars keys ensure add_decls]. rewrite !app_length, repeat_length, K. reflexivity.
  - destruct (znat n <? 1)%Z; [discriminate|]. cbn [bind] in H.
    rewrite int_vars_spec in H. cbn [bind] in H. rewrite int_vars_spec in H. cbn [bind] in H.
    assert (N1 : next_id (ensure (add_decls st md) mc) = k + (n + n + n + m))
      by (unfold next_id; cbn [vars ensure add_decls]; rewrite app_length, Lmd; reflexivity).
    assert (N2 : next_id (add_decls (ensure (add_decls st md) mc) (repeat (DInt 1 (znat n)) n)) = k + (n + n + n + m) + n)
      by (rewrite next_id_add_decls, N1, repeat_length; reflexivity).
    rewrite N1, N2 in H. clear N1 N2.
    set (ds := ivars (k + (n + n + n + m)) n 1 (znat n)) in *.
    set (ts := ivars (k + (n + n + n + m) + n) n 1 (znat n)) in *.
    destruct (mapM _ _) as [cs|] eqn:Ecs; [|discriminate]. cbn [bind] in H.
    rewrite !add_decls_app, !ensure_ensure in H.
    set (sd := repeat (DInt 1 (znat n)) n ++ repeat (DInt 1 (znat n)) n) in *.
    set (vsf := vars st ++ md ++ sd).
    pose proof (Og sd) as Og'. pose proof (Ok_ sd) as Ok'. pose proof (Or sd) as Or'. pose proof (Oa sd) as Oa'.
    pose proof (Omain sd) as Omain'. fold vsf in Og', Ok', Or', Oa', Omain'.
    assert (Od : forallb (ok vsf false) ds = true).
    { apply ok_ivars_nth. intros i Hi. unfold vsf, md, sd, k. nth_block. }
    assert (Ot : forallb (ok vsf false) ts = true).
    { apply ok_ivars_nth. intros i Hi. unfold vsf, md, sd, k. nth_block. }
    assert (Ln : forall kk lo hh, length (ivars kk n lo hh) = n) by (intros; unfold ivars; rewrite map_length, seq_length; reflexivity).
    assert (Lb : forall kk nn, length (bvars kk nn) = nn) by (intros; unfold bvars; rewrite map_length, seq_length; reflexivity).
    assert (Ohead : forallb (ok vsf true) (c_sized_head root ds ts) = true) by (apply c_sized_head_ok; assumption).
    assert (Ocs : forallb (ok vsf true) (concat cs) = true).
    { assert (F : forallb (forallb (ok vsf true)) cs = true).
      { eapply mapM_forallb; [|exact Ecs]. intros i y Hi Hy. apply in_seq in Hi.
        apply (c_sized_vertex_ok vsf g Hwf rank act Ok' Oa' (Ln _ _ _) (Lb _ _) ds ts Od Ot (Ln _ _ _) (Ln _ _ _) gs i y);
          [|fold n; lia|exact Hy].
        unfold vsf. apply gs_ok_more. exact Hgs. }
      clear - F. induction cs as [|c cs IH]; [reflexivity|]. simpl in *. apply andb_prop in F. destruct F as [F1 F2].
      rewrite forallb_app, F1, (IH F2). reflexivity. }
    assert (Oeq : forallb (ok vsf true) (c_edges_eq g act ts) = true).
    { exact (c_edges_eq_ok vsf g Hwf act Oa' (Lb _ _) ts Ot (Ln _ _ _)). }
    unfold vg_more. rewrite Eab. change (main_decls g) with md. change (sized_decls g) with sd.
    assert (Wst : wf_cons vsf (Program.cons st)) by (unfold vsf; apply wf_cons_more; exact W).
    assert (Kl : length (keys st ++ repeat false (length (md ++ sd))) = length vsf).
    { unfold vsf. rewrite !app_length, repeat_length. unfold wf_keys in K. rewrite K. lia. }
    inversion H; subst st' gid. clear H.
    destruct (gs_scalar gs).
    + split; [split|split; [|split]].
      * unfold wf_state. cbn [vars Program.cons ensure add_decls]. rewrite <- !app_assoc. fold vsf.
        repeat (apply wf_cons_app; [assumption|]). assumption.
      * unfold wf_keys. cbn [vars keys ensure add_decls]. rewrite <- !app_assoc, <- repeat_app, <- app_length. exact Kl.
      * cbn [vars ensure add_decls]. rewrite <- !app_assoc. reflexivity.
      * cbn [keys ensure add_decls]. rewrite <- !app_assoc, <- repeat_app, <- app_length. reflexivity.
      * reflexivity.
    + split; [split|split; [|split]].
      * unfold wf_state. cbn [vars Program.cons ensure add_decls]. rewrite <- !app_assoc. fold vsf.
        repeat (apply wf_cons_app; [assumption|]). assumption.
      * unfold wf_keys. cbn [vars keys ensure add_decls]. rewrite <- !app_assoc, <- repeat_app, <- app_length. exact Kl.
      * cbn [vars ensure add_decls]. rewrite <- !app_assoc. reflexivity.
      * cbn [keys ensure add_decls]. rewrite <- !app_assoc, <- repeat_app, <- app_length. reflexivity.
      * reflexivity.
Qed.

(* ---------------------------------------------------------------- post_with_borders (auxiliary-variable route) *)
Theorem post_with_borders_wf st g sizes bd st' :
  post_with_borders st g sizes bd false = Ok st' ->
  wf_graph g = true -> wf_state st -> wf_keys st ->
  forallb (opt_ok (vars st)) sizes = true -> forallb (ok (vars st) true) bd = true ->
  (wf_state st' /\ wf_keys st') /\
  vars st' = vars st ++ main_decls g ++ sized_decls g /\
  keys st' = keys st ++ repeat false (length (main_decls g ++ sized_decls g)).
Proof.
  intros H Hwf W K Hs Hb. unfold post_with_borders in H.
  destruct (negb (Nat.eqb (length sizes) (nv g))); [discriminate|].
  destruct (negb (Nat.eqb (length bd) (length (edges g)))) eqn:Eb; [discriminate|].
  apply negb_false_iff, Nat.eqb_eq in Eb.
  destruct (post_vargroups st g (G1Seq sizes)) as [[st1 gid]|] eqn:E; [|discriminate].
  cbn [bind] in H. inversion H; subst st'. clear H.
  destruct (post_vargroups_wf _ _ _ _ _ E Hwf W K Hs) as [[W1 K1] [V1 [Ky1 Eg]]].
  change (vg_more g (G1Seq sizes)) with (sized_decls g) in V1, Ky1.
  split; [split|split; [exact V1|exact Ky1]]; [|exact K1].
  apply wf_state_ensure; [exact W1|]. rewrite V1, Eg.
  apply (c_borders_ok _ g Hwf).
  - unfold main_gid, main_decls. apply ok_ivars_nth. intros i Hi. nth_block.
  - unfold main_gid, ivars. rewrite map_length, seq_length. reflexivity.
  - apply forallb_ok_more. exact Hb.
  - exact Eb.
Qed.

(* ---------------------------------------------------------------- the public wrappers *)
(* graph form: division_connected_variable_groups(solver, graph=g, group_size=a) *)
Theorem vargroups_graph_wf st g a st' r :
  division_connected_variable_groups st (Some g) None a = Ok (st', r) ->
  wf_graph g = true -> wf_state st -> wf_keys st -> gs_ok (vars st) (to_gs1_graph a) ->
  (wf_state st' /\ wf_keys st') /\
  vars st' = vars st ++ main_decls g ++ vg_more g (to_gs1_graph a) /\
  keys st' = keys st ++ repeat false (length (main_decls g ++ vg_more g (to_gs1_graph a))) /\
  r = RFlat (main_gid st g).
Proof.
  unfold division_connected_variable_groups. intros H Hwf W K Hg.
  destruct (post_vargroups st g (to_gs1_graph a)) as [[st1 gid]|] eqn:E; [|discriminate].
  cbn [bind] in H. inversion H; subst st' r. clear H.
  destruct (post_vargroups_wf _ _ _ _ _ E Hwf W K Hg) as [WK [V1 [Ky1 Eg]]].
  split; [exact WK|]. split; [exact V1|]. split; [exact Ky1|]. rewrite Eg. reflexivity.
Qed.

Lemma frame_graph_wf f : wf_graph (frame_graph f) = true.
Proof.
  unfold wf_graph, frame_graph. cbn [nv edges]. rewrite VarGroupsMain.forallb_flat_map.
  apply forallb_In. intros [y x] Hc. unfold frame_cells in Hc. apply in_flat_map in Hc.
  destruct Hc as [y' [Hy Hx]]. apply in_map_iff in Hx. destruct Hx as [x' [E Hx]]. inversion E; subst y' x'.
  apply in_seq in Hy, Hx. rewrite forallb_app.
  destruct (Nat.eqb_spec (S y) (fh f)), (Nat.eqb_spec (S x) (fw f)); cbn [forallb andb];
    rewrite ?andb_true_r; repeat (apply andb_true_intro; split); try reflexivity; apply Nat.ltb_lt; nia.
Qed.

Lemma frame_borders_ok vs f :
  forallb (ok vs true) (fhor f) = true -> forallb (ok vs true) (fver f) = true ->
  length (fhor f) = (fh f - 1) * fw f -> length (fver f) = fh f * (fw f - 1) ->
  forallb (ok vs true) (frame_borders f) = true.
Proof.
  intros Hh Hv Lh Lv. unfold frame_borders. rewrite VarGroupsMain.forallb_flat_map.
  apply forallb_In. intros [y x] Hc. unfold frame_cells in Hc. apply in_flat_map in Hc.
  destruct Hc as [y' [Hy Hx]]. apply in_map_iff in Hx. destruct Hx as [x' [E Hx]]. inversion E; subst y' x'.
  apply in_seq in Hy, Hx. rewrite forallb_app.
  apply andb_true_intro; split.
  - destruct (Nat.eqb_spec (S y) (fh f)); [reflexivity|]. cbn [forallb]. rewrite andb_true_r.
    apply at_ok; [exact Hh|]. rewrite Lh.
    assert (H : S y * fw f <= (fh f - 1) * fw f) by (apply Nat.mul_le_mono_r; lia). simpl in H. lia.
  - destruct (Nat.eqb_spec (S x) (fw f)); [reflexivity|]. cbn [forallb]. rewrite andb_true_r.
    apply at_ok; [exact Hv|]. rewrite Lv.
    assert (H : S y * (fw f - 1) <= fh f * (fw f - 1)) by (apply Nat.mul_le_mono_r; lia). simpl in H. lia.
Qed.

(* inner-frame form: division_connected_variable_groups_with_borders(solver, group_size=IntArray2D, is_border=frame) *)
Theorem with_borders_frame_wf st h w l f ugp st' :
  division_connected_variable_groups_with_borders st (GArr2 h w l) (BFrame f) None ugp false = Ok st' ->
  ugp <> Some true ->
  wf_state st -> wf_keys st ->
  forallb (opt_ok (vars st)) l = true -> forallb (ok (vars st) true) (frame_borders f) = true ->
  (wf_state st' /\ wf_keys st') /\
  vars st' = vars st ++ main_decls (frame_graph f) ++ sized_decls (frame_graph f) /\
  keys st' = keys st ++ repeat false (length (main_decls (frame_graph f) ++ sized_decls (frame_graph f))).
Proof.
  intros H Hu W K Hl Hb. change (post_with_borders st (frame_graph f) l (frame_borders f)
    (match ugp with Some p => p | None => false end) = Ok st') in H.
  assert (Ep : match ugp with Some p => p | None => false end = false) by (destruct ugp as [[|]|]; congruence).
  rewrite Ep in H. exact (post_with_borders_wf _ _ _ _ _ H (frame_graph_wf f) W K Hl Hb).
Qed.
