(* C08, level E -> level S for active_vertices_not_adjacent: what the two
   forms post, and that the posted constraints say "no edge has two active
   endpoints" -- on the given graph (not_adjacent_graph_exact) resp. on the
   grid graph (not_adjacent_grid_exact). *)
From Coq Require Import ZArith List Bool Arith Lia.
From Cspuz Require Import Lib.PyErr Core.Expr Core.Program Core.Build
  Graph.GraphModel Graph.ReachProofs Graph.Avc Graph.AvcCert Graph.AvcSem Graph.AvcTotal Graph.AvcProofs
  Array.Slice Graph.NotAdj.
Import ListNotations.
Local Open Scope nat_scope.

(* ------------------------------------------------------------------------ *)
(* posting loops                                                             *)

Definition add_cons (st : state) (cs : list expr) : state :=
  {| vars := vars st; keys := keys st; cons := cons st ++ cs |}.

Lemma add_cons_nil st : add_cons st [] = st.
Proof. destruct st. unfold add_cons. simpl. rewrite app_nil_r. reflexivity. Qed.

Lemma add_cons_app st a b : add_cons (add_cons st a) b = add_cons st (a ++ b).
Proof. unfold add_cons. simpl. rewrite app_assoc. reflexivity. Qed.

Lemma ensure_list_ok : forall cs st,
  forallb is_constraint_like cs = true -> ensure_list st cs = (add_cons st cs, None).
Proof.
  induction cs as [|c cs IH]; intros st H; simpl.
  - rewrite add_cons_nil. reflexivity.
  - simpl in H. apply andb_true_iff in H. destruct H as [H1 H2]. rewrite H1.
    rewrite IH by exact H2. unfold add_cons. simpl. rewrite <- app_assoc. reflexivity.
Qed.

Lemma post_each_ok {A} (f : A -> res (list expr)) (g : A -> list expr) : forall l st,
  (forall a, In a l -> f a = Ok (g a) /\ forallb is_constraint_like (g a) = true) ->
  post_each f st l = (add_cons st (flat_map g l), None).
Proof.
  induction l as [|a l IH]; intros st H; simpl.
  - rewrite add_cons_nil. reflexivity.
  - destruct (H a (or_introl eq_refl)) as [H1 H2]. rewrite H1, (ensure_list_ok _ _ H2).
    rewrite IH by (intros; apply H; right; assumption). rewrite add_cons_app. reflexivity.
Qed.

Lemma new_cons_add st cs : new_cons st (add_cons st cs) = cs.
Proof. unfold new_cons, add_cons. simpl. apply skipn_app_exact. Qed.

Lemma forallb_flat_map {A B} (p : B -> bool) (g : A -> list B) l :
  forallb p (flat_map g l) = forallb (fun a => forallb p (g a)) l.
Proof. induction l as [|a l IH]; [reflexivity|]. simpl. rewrite forallb_app, IH. reflexivity. Qed.

(* ------------------------------------------------------------------------ *)
(* the explicit-graph form                                                   *)

Definition is_boolexpr (e : expr) : bool :=
  match e with BVar _ | BNode _ _ => true | _ => false end.

Section GraphForm.
  Variables (acts : list expr) (g : graph).
  Hypothesis Hlen : forall a b, In (a, b) (edges g) -> a < length acts /\ b < length acts.
  Hypothesis Hbool : forall a, In a acts -> is_bool_expr_like a = true.

  Definition na_cons_of (e : nat * nat) : list expr :=
    match na_edge acts e with Ok cs => cs | Err _ => [] end.

  Lemma na_edge_ok e : In e (edges g) ->
    na_edge acts e = Ok (na_cons_of e) /\ forallb is_constraint_like (na_cons_of e) = true.
  Proof.
    intros He. destruct e as [a b]. destruct (Hlen a b He) as [Ha Hb].
    unfold na_cons_of, na_edge. simpl fst. simpl snd.
    destruct (nth_res_ok acts a Ha) as [xa Ea]. destruct (nth_res_ok acts b Hb) as [xb Eb].
    rewrite Ea, Eb. simpl.
    pose proof (Hbool xa (nth_res_in _ _ _ Ea)) as Ba. pose proof (Hbool xb (nth_res_in _ _ _ Eb)) as Bb.
    unfold na_edge_constraint. rewrite Ba, Bb.
    destruct xa; simpl in Ba; try discriminate; destruct xb; simpl in Bb; try discriminate; simpl; auto.
  Qed.

  Lemma post_na_graph st :
    post_each (na_edge acts) st (edges g) = (add_cons st (flat_map na_cons_of (edges g)), None).
  Proof. apply post_each_ok. intros e He. apply na_edge_ok. exact He. Qed.

  Lemma na_edge_holds en e : In e (edges g) -> acts_defined en acts ->
    forallb (holds gsem_avc en) (na_cons_of e) =
    negb (pattern en acts (fst e) && pattern en acts (snd e)).
  Proof.
    intros He Hdef. destruct e as [a b]. destruct (Hlen a b He) as [Ha Hb].
    unfold na_cons_of, na_edge. simpl fst. simpl snd.
    destruct (nth_res_ok acts a Ha) as [xa Ea]. destruct (nth_res_ok acts b Hb) as [xb Eb].
    rewrite Ea, Eb. simpl.
    pose proof (acts_nth acts en a xa Hdef Ea) as Va. pose proof (acts_nth acts en b xb Hdef Eb) as Vb.
    pose proof (Hbool xa (nth_res_in _ _ _ Ea)) as Ba. pose proof (Hbool xb (nth_res_in _ _ _ Eb)) as Bb.
    unfold na_edge_constraint. rewrite Ba, Bb.
    assert (Hgen : forallb (holds gsem_avc en) [b_not (b_and xa xb)] =
                   negb (pattern en acts a && pattern en acts b)).
    { simpl. unfold holds. simpl. rewrite Va, Vb. simpl.
      destruct (pattern en acts a), (pattern en acts b); reflexivity. }
    destruct xa; simpl in Ba; try discriminate; destruct xb; simpl in Bb; try discriminate;
      try exact Hgen.
    (* two Python bools *)
    simpl in Va, Vb. inversion Va as [Ha']. inversion Vb as [Hb']. rewrite <- Ha', <- Hb'.
    destruct b0, b1; reflexivity.
  Qed.

  Lemma na_graph_holds en : acts_defined en acts ->
    forallb (holds gsem_avc en) (flat_map na_cons_of (edges g)) = independent_b g (pattern en acts).
  Proof.
    intros Hdef. rewrite forallb_flat_map. unfold independent_b. apply forallb_ext_in.
    intros e He. apply na_edge_holds; assumption.
  Qed.
End GraphForm.

Lemma independent_b_iff g act : independent_b g act = true <-> independent g act.
Proof.
  unfold independent_b, independent. rewrite forallb_forall. split.
  - intros H a b Hin [Ha Hb]. specialize (H (a, b) Hin). simpl in H. rewrite Ha, Hb in H. discriminate.
  - intros H [a b] Hin. simpl. destruct (act a) eqn:Ea; [|reflexivity]. destruct (act b) eqn:Eb; [|reflexivity].
    exfalso. apply (H a b Hin). auto.
Qed.

(* active_vertices_not_adjacent(solver, is_active, graph): for every graph
   (parallel edges and self-loops included), every list / BoolArray1D of
   BoolExpr-like entries (Python bools included) covering the endpoints, the
   call raises nothing, declares nothing, and posts constraints that hold,
   under any assignment, exactly when no edge has two active endpoints. *)
Theorem not_adjacent_graph_exact st acts g arr :
  (forall a b, In (a, b) (edges g) -> a < length acts /\ b < length acts) ->
  (forall a, In a acts -> is_bool_expr_like a = true) ->
  exists st',
    post_not_adjacent st (if arr : bool then AArr1 acts else ASeq acts) (Some g) = (st', None) /\
    vars st' = vars st /\ keys st' = keys st /\ (exists cs, cons st' = cons st ++ cs) /\
    forall en, acts_defined en acts ->
      (forallb (holds gsem_avc en) (new_cons st st') = true <-> independent g (pattern en acts)).
Proof.
  intros Hlen Hbool. exists (add_cons st (flat_map (na_cons_of acts) (edges g))).
  split; [destruct arr; simpl; apply post_na_graph; assumption|].
  split; [reflexivity|]. split; [reflexivity|]. split; [eexists; reflexivity|].
  intros en Hdef. rewrite new_cons_add, (na_graph_holds acts g Hlen Hbool en Hdef).
  apply independent_b_iff.
Qed.

(* ------------------------------------------------------------------------ *)
(* the grid form: slices, elementwise &, elementwise ~                       *)

Local Open Scope Z_scope.

Lemma zseq_in : forall n s i, In i (zseq s n) <-> s <= i < s + Z.of_nat n.
Proof.
  induction n as [|n IH]; intros s i; simpl zseq.
  - simpl. lia.
  - simpl In. rewrite IH. lia.
Qed.

Lemma zseq_as_seq : forall n s, zseq s n = map (fun k => s + Z.of_nat k) (seq 0 n).
Proof.
  induction n as [|n IH]; intros s; [reflexivity|].
  cbn [zseq seq map]. f_equal; [lia|]. rewrite IH, <- seq_shift, map_map. apply map_ext. intros k. lia.
Qed.

Lemma py_index_ok {A} (l : list A) (i : Z) d :
  0 <= i < py_len l -> py_index l i = Ok (nth (Z.to_nat i) l d).
Proof.
  intros H. unfold py_index, py_len in *.
  destruct (Z.ltb_spec i 0); [lia|]. destruct (Z.ltb_spec i 0); [lia|].
  destruct (Z.leb_spec (Z.of_nat (length l)) i); [lia|]. simpl.
  destruct (nth_error l (Z.to_nat i)) eqn:E.
  - rewrite (nth_error_nth _ _ d E). reflexivity.
  - apply nth_error_None in E. lia.
Qed.

Lemma range_size_unit s e : s <= e -> range_size s e 1 = Ok (e - s).
Proof.
  intros H. unfold range_size. simpl.
  destruct (Z.leb_spec e s).
  - f_equal. lia.
  - f_equal. replace (e - s + 1 - 1) with (e - s) by lia. apply Z.div_1_r.
Qed.

(* a box of the array selected by two unit-step slices *)
Definition box_items {A} (W : Z) (data : list A) (d : A) (ys ye xs xe : Z) : list A :=
  map (fun i => nth (Z.to_nat ((ys + i / (xe - xs)) * W + (xs + i mod (xe - xs)))) data d)
      (zseq 0 (Z.to_nat ((ye - ys) * (xe - xs)))).

Lemma getitem_pair_box {A} (H W : Z) (data : list A) (d : A) ky kx ys ye xs xe :
  py_len data = H * W ->
  parse_range H ky = Ok (false, ys, ye, 1) -> parse_range W kx = Ok (false, xs, xe, 1) ->
  0 <= ys <= ye -> ye <= H -> 0 <= xs <= xe -> xe <= W ->
  getitem_pair H W data ky kx = Ok (R2 (ye - ys) (xe - xs) (box_items W data d ys ye xs xe)).
Proof.
  intros Hlen Py Px Hy1 Hy2 Hx1 Hx2. unfold getitem_pair. rewrite Py, Px. cbn [bind].
  rewrite (range_size_unit ys ye) by lia. rewrite (range_size_unit xs xe) by lia. cbn [bind andb orb negb].
  rewrite (mapM_all_ok _ (fun i => nth (Z.to_nat ((ys + i / (xe - xs)) * W + (xs + i mod (xe - xs)))) data d)).
  - reflexivity.
  - intros i Hi. apply zseq_in in Hi.
    assert (Hpos : 0 < xe - xs).
    { destruct (Z.eq_dec (xe - xs) 0) as [E|E]; [rewrite E, Z.mul_0_r in Hi; simpl in Hi; lia|lia]. }
    assert (Hi' : 0 <= i < (ye - ys) * (xe - xs)).
    { rewrite Z2Nat.id in Hi by nia. lia. }
    rewrite !Z.mul_1_l.
    apply py_index_ok. rewrite Hlen.
    pose proof (Z.mod_pos_bound i (xe - xs) Hpos).
    assert (0 <= i / (xe - xs)) by (apply Z.div_pos; lia).
    assert (i / (xe - xs) < ye - ys) by (apply Z.div_lt_upper_bound; nia).
    nia.
Qed.

Lemma parse_range_all H : 0 <= H -> parse_range H (sl None None) = Ok (false, 0, H, 1).
Proof. intros HH. unfold parse_range, sl, slice_indices. simpl. reflexivity. Qed.

Lemma parse_range_from1 H : 0 <= H -> parse_range H (sl (Some 1) None) = Ok (false, Z.min 1 H, H, 1).
Proof. intros HH. unfold parse_range, sl, slice_indices. simpl. reflexivity. Qed.

Lemma parse_range_to_m1 H : 0 <= H ->
  parse_range H (sl None (Some (-1))) = Ok (false, 0, Z.max (-1 + H) 0, 1).
Proof. intros HH. unfold parse_range, sl, slice_indices. simpl. reflexivity. Qed.

Lemma combine_map_same {A B C} (f : A -> B) (g : A -> C) l :
  combine (map f l) (map g l) = map (fun a => (f a, g a)) l.
Proof. induction l as [|a l IH]; [reflexivity|]. simpl. rewrite IH. reflexivity. Qed.

Section GridForm.
  Variables (h w : nat) (l : list expr).
  Hypothesis Hlen : length l = (h * w)%nat.
  Let H := Z.of_nat h.
  Let W := Z.of_nat w.
  Let d := PyBool false.

  Lemma len_HW : py_len l = H * W.
  Proof. unfold py_len, H, W. rewrite Hlen. apply Nat2Z.inj_mul. Qed.

  (* number of row pairs / column pairs *)
  Definition nrows : Z := (Z.max (H - 1) 0) * W.
  Definition ncols : Z := H * (Z.max (W - 1) 0).

  Definition row_a (i : Z) : nat := Z.to_nat (W + i).
  Definition row_b (i : Z) : nat := Z.to_nat i.
  Definition col_a (i : Z) : nat := Z.to_nat (i / (W - 1) * W + 1 + i mod (W - 1)).
  Definition col_b (i : Z) : nat := Z.to_nat (i / (W - 1) * W + i mod (W - 1)).

  Definition pair_cons (fa fb : Z -> nat) (n : Z) : list expr :=
    map (fun i => b_not (b_and (nth (fa i) l d) (nth (fb i) l d))) (zseq 0 (Z.to_nat n)).

  Lemma na_grid_rows_eq : na_grid_rows h w l = Ok (pair_cons row_a row_b nrows).
  Proof.
    assert (HH : 0 <= H) by (unfold H; lia). assert (HW : 0 <= W) by (unfold W; lia).
    unfold na_grid_rows. fold H W. unfold getitem2.
    rewrite (getitem_pair_box H W l d _ _ (Z.min 1 H) H 0 W len_HW (parse_range_from1 H HH) (parse_range_all W HW))
      by lia.
    rewrite (getitem_pair_box H W l d _ _ 0 (Z.max (-1 + H) 0) 0 W len_HW (parse_range_to_m1 H HH) (parse_range_all W HW))
      by lia.
    cbn [bind]. unfold ew_and.
    set (m := Z.max (-1 + H) 0).
    assert (Hsz : H - Z.min 1 H = m - 0) by (unfold m; lia).
    rewrite Hsz, !Z.eqb_refl. cbn [andb bind ew_not result_items]. f_equal.
    unfold box_items. rewrite Hsz. rewrite combine_map_same, !map_map.
    unfold pair_cons, nrows. replace (Z.max (H - 1) 0) with m by (unfold m; lia).
    replace ((m - 0) * (W - 0)) with (m * W) by ring.
    apply map_ext_in. intros i Hi. apply zseq_in in Hi.
    assert (HWpos : 0 < W).
    { destruct (Z.eq_dec W 0) as [E|E]; [rewrite E, Z.mul_0_r in Hi; simpl in Hi; lia|lia]. }
    assert (Hpos : 0 < m).
    { destruct (Z.eq_dec m 0) as [E|E]; [rewrite E in Hi; simpl in Hi; lia|unfold m in *; lia]. }
    cbn [fst snd]. unfold row_a, row_b. rewrite Z.sub_0_r.
    pose proof (Z.div_mod i W ltac:(lia)) as Hdm.
    replace (Z.min 1 H) with 1 by (unfold m in Hpos; lia).
    replace (Z.to_nat ((1 + i / W) * W + (0 + i mod W))) with (Z.to_nat (W + i)) by (f_equal; nia).
    replace (Z.to_nat ((0 + i / W) * W + (0 + i mod W))) with (Z.to_nat i) by (f_equal; nia).
    reflexivity.
  Qed.

  Lemma na_grid_cols_eq : na_grid_cols h w l = Ok (pair_cons col_a col_b ncols).
  Proof.
    assert (HH : 0 <= H) by (unfold H; lia). assert (HW : 0 <= W) by (unfold W; lia).
    unfold na_grid_cols. fold H W. unfold getitem2.
    rewrite (getitem_pair_box H W l d _ _ 0 H (Z.min 1 W) W len_HW (parse_range_all H HH) (parse_range_from1 W HW))
      by lia.
    rewrite (getitem_pair_box H W l d _ _ 0 H 0 (Z.max (-1 + W) 0) len_HW (parse_range_all H HH) (parse_range_to_m1 W HW))
      by lia.
    cbn [bind]. unfold ew_and.
    set (m := Z.max (-1 + W) 0).
    assert (Hsz : W - Z.min 1 W = m - 0) by (unfold m; lia).
    rewrite Hsz, !Z.eqb_refl. cbn [andb bind ew_not result_items]. f_equal.
    unfold box_items. rewrite Hsz. rewrite combine_map_same, !map_map.
    unfold pair_cons, ncols. replace (Z.max (W - 1) 0) with m by (unfold m; lia).
    replace ((H - 0) * (m - 0)) with (H * m) by ring.
    apply map_ext_in. intros i Hi. apply zseq_in in Hi.
    assert (Hpos : 0 < m).
    { destruct (Z.eq_dec m 0) as [E|E]; [rewrite E, Z.mul_0_r in Hi; simpl in Hi; lia|unfold m in *; lia]. }
    cbn [fst snd]. unfold col_a, col_b. rewrite Z.sub_0_r.
    replace (W - 1) with m by (unfold m in *; lia). replace (Z.min 1 W) with 1 by (unfold m in Hpos; lia).
    replace (Z.to_nat ((0 + i / m) * W + (1 + i mod m))) with (Z.to_nat (i / m * W + 1 + i mod m)) by (f_equal; lia).
    replace (Z.to_nat ((0 + i / m) * W + (0 + i mod m))) with (Z.to_nat (i / m * W + i mod m)) by (f_equal; lia).
    reflexivity.
  Qed.

  Lemma pair_cons_like fa fb n : forallb is_constraint_like (pair_cons fa fb n) = true.
  Proof. unfold pair_cons. rewrite forallb_forall. intros x Hx. apply in_map_iff in Hx. destruct Hx as [i [<- _]]. reflexivity. Qed.

  Definition grid_cons : list expr := pair_cons row_a row_b nrows ++ pair_cons col_a col_b ncols.

  Lemma post_na_grid st :
    post_not_adjacent st (AArr2 h w l) None = (add_cons st grid_cons, None).
  Proof.
    unfold post_not_adjacent.
    rewrite (post_each_ok _ (fun f : nat -> nat -> list expr -> res (list expr) =>
                               match f h w l with Ok cs => cs | Err _ => [] end)).
    - simpl. rewrite na_grid_rows_eq, na_grid_cols_eq, app_nil_r. reflexivity.
    - intros f [<-|[<-|[]]].
      + rewrite na_grid_rows_eq. split; [reflexivity|apply pair_cons_like].
      + rewrite na_grid_cols_eq. split; [reflexivity|apply pair_cons_like].
  Qed.

  (* ---- meaning *)
  Variable en : env.
  Hypothesis Hdef : acts_defined en l.
  Notation p := (pattern en l).

  Lemma nth_eval i : (i < length l)%nat -> eval gsem_avc en (nth i l d) = Some (VB (p i)).
  Proof.
    intros Hi. destruct (Hdef (nth i l d) (nth_In l d Hi)) as [c Hc].
    unfold pattern, holds. fold d. rewrite Hc. destruct c; reflexivity.
  Qed.

  Lemma pair_cons_holds fa fb n :
    (forall i, 0 <= i < n -> (fa i < length l)%nat /\ (fb i < length l)%nat) ->
    (forallb (holds gsem_avc en) (pair_cons fa fb n) = true <->
     forall i, 0 <= i < n -> ~ (p (fa i) = true /\ p (fb i) = true)).
  Proof.
    intros Hr. unfold pair_cons. rewrite forallb_forall. split.
    - intros Hall i Hi [Pa Pb]. destruct (Hr i Hi) as [Ra Rb].
      assert (Hin : In i (zseq 0 (Z.to_nat n))) by (apply zseq_in; lia).
      specialize (Hall _ (in_map _ _ _ Hin)). unfold holds in Hall. simpl in Hall.
      rewrite (nth_eval _ Ra), (nth_eval _ Rb), Pa, Pb in Hall. simpl in Hall. discriminate.
    - intros Hall x Hx. apply in_map_iff in Hx. destruct Hx as [i [<- Hi]]. apply zseq_in in Hi.
      assert (Hi' : 0 <= i < n) by lia. destruct (Hr i Hi') as [Ra Rb].
      unfold holds. simpl. rewrite (nth_eval _ Ra), (nth_eval _ Rb). simpl.
      destruct (p (fa i)) eqn:Pa, (p (fb i)) eqn:Pb; try reflexivity.
      exfalso. apply (Hall i Hi'). auto.
  Qed.

  Lemma rows_range i : 0 <= i < nrows -> (row_a i < length l)%nat /\ (row_b i < length l)%nat.
  Proof. unfold nrows, row_a, row_b. rewrite Hlen. fold H W. intros Hi. unfold H, W in *. nia. Qed.

  Lemma cols_range i : 0 <= i < ncols -> (col_a i < length l)%nat /\ (col_b i < length l)%nat.
  Proof.
    unfold ncols, col_a, col_b. rewrite Hlen. intros Hi.
    assert (Hpos : 0 < W - 1) by nia.
    pose proof (Z.mod_pos_bound i (W - 1) Hpos).
    assert (0 <= i / (W - 1)) by (apply Z.div_pos; lia).
    assert (i / (W - 1) < H) by (apply Z.div_lt_upper_bound; nia).
    unfold H, W in *. nia.
  Qed.

  Lemma grid_cons_holds :
    forallb (holds gsem_avc en) grid_cons = true <-> independent (grid_graph h w) p.
  Proof.
    unfold grid_cons. rewrite forallb_app, andb_true_iff.
    rewrite (pair_cons_holds _ _ _ rows_range), (pair_cons_holds _ _ _ cols_range).
    unfold independent. simpl edges. split.
    - intros [Hrows Hcols] a b Hin. apply grid_edges_spec in Hin.
      destruct Hin as [y [x [Hy [Hx [-> [[Hx1 ->]|[Hy1 ->]]]]]]].
      + (* right neighbour *)
        set (i := Z.of_nat y * (W - 1) + Z.of_nat x).
        assert (Hi : 0 <= i < ncols) by (unfold i, ncols, H, W; nia).
        assert (Hq : i / (W - 1) = Z.of_nat y).
        { symmetry. apply (Z.div_unique_pos i (W - 1) (Z.of_nat y) (Z.of_nat x)); unfold i, W; lia. }
        assert (Hm : i mod (W - 1) = Z.of_nat x).
        { symmetry. apply (Z.mod_unique_pos i (W - 1) (Z.of_nat y) (Z.of_nat x)); unfold i, W; lia. }
        specialize (Hcols i Hi). unfold col_a, col_b in Hcols. rewrite Hq, Hm in Hcols.
        replace (Z.to_nat (Z.of_nat y * W + 1 + Z.of_nat x)) with (y * w + S x)%nat in Hcols by (unfold W; nia).
        replace (Z.to_nat (Z.of_nat y * W + Z.of_nat x)) with (y * w + x)%nat in Hcols by (unfold W; nia).
        tauto.
      + (* lower neighbour *)
        set (i := Z.of_nat (y * w + x)).
        assert (Hi : 0 <= i < nrows) by (unfold i, nrows, H, W; nia).
        specialize (Hrows i Hi). unfold row_a, row_b in Hrows.
        replace (Z.to_nat (W + i)) with (S y * w + x)%nat in Hrows by (unfold i, W; nia).
        replace (Z.to_nat i) with (y * w + x)%nat in Hrows by (unfold i; lia).
        tauto.
    - intros Hind. split.
      + intros i Hi [Pa Pb]. unfold nrows in Hi.
        assert (HWpos : 0 < W) by nia.
        pose proof (Z.div_mod i W ltac:(lia)) as Hdm. pose proof (Z.mod_pos_bound i W HWpos) as Hmb.
        assert (Hq0 : 0 <= i / W) by (apply Z.div_pos; lia).
        assert (Hq1 : i / W < H - 1) by (apply Z.div_lt_upper_bound; nia).
        apply (Hind (Z.to_nat i) (Z.to_nat (W + i))); [|split; assumption].
        apply grid_edges_spec. exists (Z.to_nat (i / W)), (Z.to_nat (i mod W)).
        split; [unfold H in *; lia|]. split; [unfold W in *; lia|].
        split; [unfold W in *; nia|]. right. split; [unfold H in *; lia|unfold W in *; nia].
      + intros i Hi [Pa Pb]. unfold ncols in Hi.
        assert (Hpos : 0 < W - 1) by nia.
        pose proof (Z.div_mod i (W - 1) ltac:(lia)) as Hdm. pose proof (Z.mod_pos_bound i (W - 1) Hpos) as Hmb.
        assert (Hq0 : 0 <= i / (W - 1)) by (apply Z.div_pos; lia).
        assert (Hq1 : i / (W - 1) < H) by (apply Z.div_lt_upper_bound; nia).
        apply (Hind (col_b i) (col_a i)); [|split; assumption].
        apply grid_edges_spec. exists (Z.to_nat (i / (W - 1))), (Z.to_nat (i mod (W - 1))).
        split; [unfold H in *; lia|]. split; [unfold W in *; lia|]. unfold col_a, col_b.
        split; [unfold W in *; nia|]. left. split; [unfold W in *; lia|unfold W in *; nia].
  Qed.
End GridForm.

Local Close Scope Z_scope.

(* active_vertices_not_adjacent(solver, is_active) with a BoolArray2D of any
   shape (0 x N, N x 0, 1 x N, N x 1 included): the two shifted-slice
   conjunctions raise nothing, declare nothing, and hold exactly when no edge
   of the grid graph has two active endpoints -- i.e. exactly when the
   explicit-graph form on _grid_graph(h, w) holds. *)
Theorem not_adjacent_grid_exact st h w l :
  length l = h * w ->
  exists st',
    post_not_adjacent st (AArr2 h w l) None = (st', None) /\
    vars st' = vars st /\ keys st' = keys st /\ (exists cs, cons st' = cons st ++ cs) /\
    forall en, acts_defined en l ->
      (forallb (holds gsem_avc en) (new_cons st st') = true <-> independent (grid_graph h w) (pattern en l)).
Proof.
  intros Hlen. exists (add_cons st (grid_cons h w l)).
  split; [apply post_na_grid; exact Hlen|]. split; [reflexivity|]. split; [reflexivity|].
  split; [eexists; reflexivity|]. intros en Hdef. rewrite new_cons_add. apply grid_cons_holds; assumption.
Qed.
