From Coq Require Import ZArith List Bool.
From Cspuz Require Import Lib.PyErr Core.Expr Core.Program Graph.GraphModel Graph.VarGroups Graph.VarGroupsPrim.
Import ListNotations.

Theorem vargroups_with_borders_primitive :
  forall st g sizes bd,
    length sizes = nv g -> length bd = length (edges g) ->
    post_with_borders st g sizes bd true = Ok (ensure st [BNode G_DIV (gdiv_operands g sizes bd)]) /\
    decode_gdiv (gdiv_operands g sizes bd) = Some (g, sizes, bd).
Proof. intros; split; [apply post_with_borders_primitive|apply decode_gdiv_operands]; assumption. Qed.
Print Assumptions vargroups_with_borders_primitive.
