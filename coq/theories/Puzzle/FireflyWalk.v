(* C11 Tier 1 - firefly: the beam walk of Rules_firefly.ff_walk for an arbitrary drawing, dart by dart: the
   continuation of a dart (cont), the darts a walk traverses (wdarts), the turns still to come (remf), and the
   inductively defined set of darts on the beam of a firefly (Bi).  No cspuz encoding is involved. *)
From Coq Require Import ZArith List Bool Arith Lia.
From Cspuz Require Import Graph.GraphModel Puzzle.PuzzleBase Puzzle.Rules_firefly Puzzle.Firefly
     Puzzle.FireflyGeo Puzzle.FireflyNet.
Import ListNotations.
Local Open Scope nat_scope.

Definition dart := (pt * nat)%type.
Definition dart_eqb (a b : dart) : bool :=
  Nat.eqb (fst (fst a)) (fst (fst b)) && Nat.eqb (snd (fst a)) (snd (fst b)) && Nat.eqb (snd a) (snd b).
Lemma dart_eqb_spec a b : dart_eqb a b = true <-> a = b.
Proof.
  destruct a as [[y x] d], b as [[y' x'] d']. unfold dart_eqb. cbn [fst snd].
  rewrite !andb_true_iff, !Nat.eqb_eq. split.
  - intros [[-> ->] ->]. reflexivity.
  - intros E. inversion E. auto.
Qed.

Section Walk.
  Variables (h w : nat) (dir : list Z) (on : nat -> bool).
  Notation H := (S h).
  Notation W := (S w).
  Notation valid := (gvalid h w).
  Notation ok := (gok h w).
  Notation sid := (gsid h w).
  Notation fly := (FireflyNet.fly w dir).
  Notation dot := (FireflyNet.dot w dir).
  Notation walk := (fun fuel (p : pt) d t acc => ff_walk fuel H W dir on (fst p) (snd p) d t acc).

  Definition segp (p : pt) (d : nat) : bool := seg H W on (fst p) (snd p) d.

  Lemma segp_spec p d : In d ff_dirs -> segp p d = ok p d && on (sid p d).
  Proof. apply gseg. Qed.

  (* the direction in which a beam that arrives by dart (p, d) at a point without firefly goes on *)
  Definition cont (p : pt) (d : nat) : option nat :=
    match filter (fun d' => negb (Nat.eqb d' (opposite d)) && segp (gstep p d) d') [0; 1; 2; 3] with
    | [d'] => Some d'
    | _ => None
    end.

  Lemma cont_spec p d d' : cont p d = Some d' ->
    In d' ff_dirs /\ d' <> opposite d /\ segp (gstep p d) d' = true /\
    (forall d'', In d'' ff_dirs -> d'' <> opposite d -> segp (gstep p d) d'' = true -> d'' = d').
  Proof.
    unfold cont. destruct (filter _ [0; 1; 2; 3]) as [|a [|b r]] eqn:E; try discriminate.
    intros X. inversion X; subst a. clear X.
    assert (Hin : In d' (filter (fun d'0 => negb (Nat.eqb d'0 (opposite d)) && segp (gstep p d) d'0) [0; 1; 2; 3]))
      by (rewrite E; left; reflexivity).
    apply filter_In in Hin. destruct Hin as [Hd' Hp]. apply andb_true_iff in Hp. destruct Hp as [Hn Hs].
    apply negb_true_iff, Nat.eqb_neq in Hn.
    split; [exact Hd'|]. split; [exact Hn|]. split; [exact Hs|].
    intros d'' Hd'' Hn'' Hs''.
    assert (Hin : In d'' (filter (fun d'0 => negb (Nat.eqb d'0 (opposite d)) && segp (gstep p d) d'0) [0; 1; 2; 3])).
    { apply filter_In. split; [exact Hd''|]. rewrite Hs''. replace (Nat.eqb d'' (opposite d)) with false
        by (symmetry; apply Nat.eqb_neq; exact Hn''). reflexivity. }
    rewrite E in Hin. destruct Hin as [<-|[]]. reflexivity.
  Qed.

  Lemma walk_S fuel p d t acc :
    walk (S fuel) p d t acc =
    if fly (gstep p d) then Some (fst (gstep p d), snd (gstep p d), d, t, sid p d :: acc)
    else match cont p d with
         | Some d' => walk fuel (gstep p d) d' (if Nat.eqb d' d then t else (t + 1)%Z) (sid p d :: acc)
         | None => None
         end.
  Proof.
    cbn [ff_walk]. change (step_dir (fst p) (snd p) d) with (gstep p d).
    change (ff_seg_id H W (fst p) (snd p) d) with (sid p d).
    unfold FireflyNet.fly, cont, segp. destruct (gstep p d) as [y' x']. cbn [fst snd].
    destruct (ff_is dir W y' x'); [reflexivity|].
    destruct (filter _ [0; 1; 2; 3]) as [|a [|b r]]; reflexivity.
  Qed.

  (* the darts traversed, in order *)
  Fixpoint wdarts (fuel : nat) (p : pt) (d : nat) : list dart :=
    match fuel with
    | O => []
    | S f => (p, d) :: (if fly (gstep p d) then []
                        else match cont p d with Some d' => wdarts f (gstep p d) d' | None => [] end)
    end.

  (* the number of turns from dart (p, d) to the end of the beam *)
  Fixpoint remf (fuel : nat) (p : pt) (d : nat) : Z :=
    match fuel with
    | O => 0%Z
    | S f => if fly (gstep p d) then 0%Z
             else match cont p d with
                  | Some d' => (remf f (gstep p d) d' + (if Nat.eqb d' d then 0 else 1))%Z
                  | None => 0%Z
                  end
    end.

  Lemma remf_nonneg fuel : forall p d, (0 <= remf fuel p d)%Z.
  Proof.
    induction fuel as [|f IH]; intros p d; cbn [remf]; [lia|].
    destruct (fly (gstep p d)); [lia|]. destruct (cont p d) as [d'|]; [|lia].
    specialize (IH (gstep p d) d'). destruct (Nat.eqb d' d); lia.
  Qed.

  Lemma walk_turns_remf fuel : forall p d t acc y' x' dl t' acc',
    walk fuel p d t acc = Some (y', x', dl, t', acc') -> t' = (t + remf fuel p d)%Z.
  Proof.
    induction fuel as [|f IH]; intros p d t acc y' x' dl t' acc' Hw; [discriminate|].
    rewrite walk_S in Hw. cbn [remf]. destruct (fly (gstep p d)).
    - inversion Hw. lia.
    - destruct (cont p d) as [d'|]; [|discriminate]. apply IH in Hw. destruct (Nat.eqb d' d); lia.
  Qed.

  (* more fuel changes nothing once the walk succeeds *)
  Lemma walk_mono fuel : forall p d t acc r, walk fuel p d t acc = Some r -> walk (S fuel) p d t acc = Some r.
  Proof.
    induction fuel as [|f IH]; intros p d t acc r Hw; [discriminate|].
    rewrite walk_S in Hw. rewrite walk_S. destruct (fly (gstep p d)); [exact Hw|].
    destruct (cont p d) as [d'|]; [|discriminate]. apply IH. exact Hw.
  Qed.
  Lemma remf_mono fuel : forall p d t acc r, walk fuel p d t acc = Some r -> remf (S fuel) p d = remf fuel p d.
  Proof.
    induction fuel as [|f IH]; intros p d t acc r Hw; [discriminate|].
    rewrite walk_S in Hw. cbn [remf]. cbn [remf] in IH. destruct (fly (gstep p d)); [reflexivity|].
    destruct (cont p d) as [d'|]; [|discriminate]. rewrite <- (IH _ _ _ _ _ Hw). reflexivity.
  Qed.
  Lemma remf_stable fuel k : forall p d t acc r, walk fuel p d t acc = Some r -> remf (fuel + k) p d = remf fuel p d.
  Proof.
    induction k as [|k IH]; intros p d t acc r Hw; [rewrite Nat.add_0_r; reflexivity|].
    replace (fuel + S k) with (S (fuel + k)) by lia.
    assert (Hw' : walk (fuel + k) p d t acc = Some r).
    { clear IH. induction k as [|k IHk]; [rewrite Nat.add_0_r; exact Hw|].
      replace (fuel + S k) with (S (fuel + k)) by lia. apply walk_mono. exact IHk. }
    rewrite (remf_mono _ _ _ _ _ _ Hw'). apply (IH _ _ _ _ _ Hw).
  Qed.

  (* the collected segments are those of the darts traversed *)
  Lemma walk_acc fuel : forall p d t acc y' x' dl t' acc',
    walk fuel p d t acc = Some (y', x', dl, t', acc') ->
    forall k, In k acc' <-> In k acc \/ exists x, In x (wdarts fuel p d) /\ sid (fst x) (snd x) = k.
  Proof.
    induction fuel as [|f IH]; intros p d t acc y' x' dl t' acc' Hw k; [discriminate|].
    rewrite walk_S in Hw. cbn [wdarts]. destruct (fly (gstep p d)).
    - injection Hw as _ _ _ _ E5. subst acc'. cbn [In]. split.
      + intros [E|Hk]; [right; exists (p, d); split; [left; reflexivity|exact E]|left; exact Hk].
      + intros [Hk|[x [[<-|[]] E]]]; [right; exact Hk|left; exact E].
    - destruct (cont p d) as [d'|]; [|discriminate]. rewrite (IH _ _ _ _ _ _ _ _ _ Hw k). cbn [In]. split.
      + intros [[E|Hk]|[x [Hx E]]].
        * right. exists (p, d). split; [left; reflexivity|exact E].
        * left. exact Hk.
        * right. exists x. split; [right; exact Hx|exact E].
      + intros [Hk|[x [[<-|Hx] E]]].
        * left. right. exact Hk.
        * left. left. exact E.
        * right. exists x. split; [exact Hx|exact E].
  Qed.

  (* ---- the darts on the beam that starts with dart x0 *)
  Inductive Bi (x0 : dart) : dart -> Prop :=
  | Bi_start : Bi x0 x0
  | Bi_step p d d' : Bi x0 (p, d) -> fly (gstep p d) = false -> cont p d = Some d' -> Bi x0 (gstep p d, d').

  Lemma wdarts_Bi fuel : forall x0 p d, Bi x0 (p, d) -> forall x, In x (wdarts fuel p d) -> Bi x0 x.
  Proof.
    induction fuel as [|f IH]; intros x0 p d Hb x Hx; [destruct Hx|].
    cbn [wdarts] in Hx. destruct Hx as [<-|Hx]; [exact Hb|].
    destruct (fly (gstep p d)) eqn:Hf; [destruct Hx|].
    destruct (cont p d) as [d'|] eqn:Hc; [|destruct Hx].
    apply (IH x0 (gstep p d) d'); [apply Bi_step; assumption|exact Hx].
  Qed.

  (* a walk that succeeds traverses the continuation of each of its darts *)
  Lemma wdarts_closed fuel : forall p0 d0 t acc r, walk fuel p0 d0 t acc = Some r ->
    forall p d d', In (p, d) (wdarts fuel p0 d0) -> fly (gstep p d) = false -> cont p d = Some d' ->
    In (gstep p d, d') (wdarts fuel p0 d0).
  Proof.
    induction fuel as [|f IH]; intros p0 d0 t acc r Hw p d d' Hin Hf Hc; [destruct Hin|].
    rewrite walk_S in Hw. cbn [wdarts] in *. destruct Hin as [E|Hin].
    - inversion E; subst p0 d0. rewrite Hf, Hc in *. right.
      destruct f as [|f]; [discriminate|]. cbn [wdarts]. left. reflexivity.
    - right. destruct (fly (gstep p0 d0)); [destruct Hin|].
      destruct (cont p0 d0) as [d0'|]; [|destruct Hin].
      apply (IH _ _ _ _ _ Hw); assumption.
  Qed.

  (* the end of the beam, seen from any of its darts: with the remaining fuel the walk from that dart ends at the
     same place *)
  Definition ends_at (fuel : nat) (x : dart) (e : dart) : Prop :=
    exists t acc t' acc', walk fuel (fst x) (snd x) t acc = Some (fst (fst e), snd (fst e), snd e, t', acc').

  Lemma ends_at_step fuel p d e : ends_at fuel (p, d) e -> fly (gstep p d) = false ->
    exists f d', fuel = S f /\ cont p d = Some d' /\ ends_at f (gstep p d, d') e.
  Proof.
    intros [t [acc [t' [acc' Hw]]]] Hf. cbn [fst snd] in Hw. destruct fuel as [|f]; [discriminate|].
    rewrite walk_S, Hf in Hw. destruct (cont p d) as [d'|]; [|discriminate].
    exists f, d'. split; [reflexivity|]. split; [reflexivity|].
    exists (if Nat.eqb d' d then t else (t + 1)%Z), (sid p d :: acc), t', acc'. exact Hw.
  Qed.

  Lemma ends_at_last fuel p d e : ends_at fuel (p, d) e -> fly (gstep p d) = true -> e = (gstep p d, d).
  Proof.
    intros [t [acc [t' [acc' Hw]]]] Hf. cbn [fst snd] in Hw. destruct fuel as [|f]; [discriminate|].
    rewrite walk_S, Hf in Hw. destruct e as [[ye xe] de]. cbn [fst snd] in Hw.
    injection Hw as E1 E2 E3 _ _. rewrite <- E1, <- E2, <- E3. destruct (gstep p d); reflexivity.
  Qed.

  Lemma Bi_ends x0 N e : ends_at N x0 e -> forall x, Bi x0 x -> exists f, f <= N /\ ends_at f x e.
  Proof.
    intros He x Hb. induction Hb as [|p d d' Hb IH Hf Hc].
    - exists N. split; [lia|exact He].
    - destruct IH as [f [Hle Hf']]. destruct (ends_at_step f p d e Hf' Hf) as [f' [d'' [E [Hc' He']]]].
      rewrite Hc in Hc'. inversion Hc'; subst d''. exists f'. split; [lia|exact He'].
  Qed.

  (* what happens after a dart of a beam that ends at e *)
  Lemma Bi_forward x0 N e p d : ends_at N x0 e -> Bi x0 (p, d) ->
    (fly (gstep p d) = true /\ e = (gstep p d, d)) \/
    (fly (gstep p d) = false /\ exists d', cont p d = Some d' /\ Bi x0 (gstep p d, d')).
  Proof.
    intros He Hb. destruct (Bi_ends x0 N e He _ Hb) as [f [_ Hf]].
    destruct (fly (gstep p d)) eqn:Hfl.
    - left. split; [reflexivity|]. apply (ends_at_last f); assumption.
    - right. split; [reflexivity|]. destruct (ends_at_step f p d e Hf Hfl) as [f' [d' [_ [Hc _]]]].
      exists d'. split; [exact Hc|]. apply Bi_step; assumption.
  Qed.

  Lemma Bi_in_wdarts x0 N e : ends_at N x0 e -> forall x, Bi x0 x -> In x (wdarts N (fst x0) (snd x0)).
  Proof.
    intros He x Hb. induction Hb as [|p d d' Hb IH Hf Hc].
    - destruct He as [t [acc [t' [acc' Hw]]]]. destruct N as [|n]; [discriminate|].
      cbn [wdarts]. left. destruct x0; reflexivity.
    - destruct He as [t [acc [t' [acc' Hw]]]]. apply (wdarts_closed N _ _ _ _ _ Hw p d d'); assumption.
  Qed.

  (* the turns still to come, as a function of the dart alone (fuel N) *)
  Lemma Bi_remf x0 N e : ends_at N x0 e -> forall p d, Bi x0 (p, d) ->
    (fly (gstep p d) = true -> remf N p d = 0%Z) /\
    (forall d', fly (gstep p d) = false -> cont p d = Some d' ->
                remf N p d = (remf N (gstep p d) d' + (if Nat.eqb d' d then 0 else 1))%Z).
  Proof.
    intros He p d Hb. destruct (Bi_ends x0 N e He _ Hb) as [f [Hle [t [acc [t' [acc' Hw]]]]]]. cbn [fst snd] in Hw.
    destruct f as [|f]; [discriminate|].
    assert (E1 : remf N p d = remf (S f) p d).
    { replace N with (S f + (N - S f)) by lia. apply (remf_stable _ _ _ _ _ _ _ Hw). }
    rewrite E1. cbn [remf]. split.
    - intros Hf. rewrite Hf. reflexivity.
    - intros d' Hf Hc. rewrite Hf, Hc. f_equal.
      rewrite walk_S, Hf, Hc in Hw.
      replace N with (f + (N - f)) by lia. symmetry. apply (remf_stable _ _ _ _ _ _ _ Hw).
  Qed.
End Walk.
