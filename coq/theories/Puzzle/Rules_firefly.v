(* C11 rule specification - Hotaru Beam (cspuz module "firefly").
   Published rules (puzz.link / nikoli, "Hotaru Beam"):
     1. Draw lines ("beams") along the dotted grid lines, starting from the black dot of every circle
        ("firefly"); every firefly emits a beam from its dot.
     2. A beam ends when it reaches a circle.  It may not end at a black dot: a line never connects two black
        dots, and no line joins the dot-less sides of two circles (every line starts at a dot).
     3. Lines do not branch, do not cross each other, and do not pass through a circle.
     4. A number in a circle is the number of times the beam that starts at its dot turns before it reaches a
        circle; a circle without a number may emit a beam with any number of turns.
     5. All circles and lines form one connected network.
   Reading choices.  (a) The circle a beam reaches may be the circle it started from (it then arrives at one of
   the dot-less sides): the rule texts say "reaches a circle" / "connects the fireflies" and do not exclude it,
   and neither does the module.  (b) A board without any firefly has exactly one solution, the empty drawing
   (there is no dot a line could start from).

   Geometry: the fireflies sit on the points of a lattice of h x w points (cspuz: height x width, the answer is a
   BoolGridFrame(height - 1, width - 1)); a beam runs along lattice segments.
   problem = [[h; w]; dir; num]   per lattice point, row-major:
                                   dir 0 = no firefly ("..") , 1 ^ , 2 v , 3 < , 4 >  (the side of the black dot);
                                   num = the number on the firefly, -1 = no number ("?"); ignored where dir = 0
   answer  = has_line, the drawn segments of lattice h w: first the h*(w-1) horizontal ones row by row, then
             the (h-1)*w vertical ones row by row (PuzzleBase.hseg / vseg). *)
From Coq Require Import ZArith List Bool Arith.
From Cspuz Require Import Graph.GraphModel Puzzle.PuzzleBase.
Import ListNotations.

(* the index of the segment leaving lattice point (y, x) in direction d (0 up, 1 down, 2 left, 3 right);
   meaningful where PuzzleBase.seg may be true *)
Definition ff_seg_id (P Q y x d : nat) : nat :=
  match d with
  | 0 => vseg P Q (y - 1) x
  | 1 => vseg P Q y x
  | 2 => hseg P Q y (x - 1)
  | _ => hseg P Q y x
  end.

(* is there a firefly on point (y, x) *)
Definition ff_is (dir : list Z) (Q y x : nat) : bool :=
  let k := at2 dir Q y x in ((1 <=? k) && (k <=? 4))%Z.
(* the side of its dot, as a direction 0..3 *)
Definition ff_dot (dir : list Z) (Q y x : nat) : nat := zn (at2 dir Q y x - 1).

(* Follow a beam.  We stand on (y, x) and leave along the drawn segment in direction d, having turned [turns]
   times so far; [acc] collects the segments used.  The walk ends on the first firefly reached:
   Some (point reached, direction of travel on arrival, number of turns, segments used).  On a point without
   firefly the beam continues along the one other drawn segment; None if there is not exactly one (dead end,
   branch, crossing) or the fuel runs out. *)
Fixpoint ff_walk (fuel P Q : nat) (dir : list Z) (on : nat -> bool) (y x d : nat) (turns : Z) (acc : list nat)
  : option (nat * nat * nat * Z * list nat) :=
  match fuel with
  | O => None
  | S f =>
      let '(y', x') := step_dir y x d in
      let acc' := ff_seg_id P Q y x d :: acc in
      if ff_is dir Q y' x' then Some (y', x', d, turns, acc')
      else match filter (fun d' => negb (Nat.eqb d' (opposite d)) && seg P Q on y' x' d') [0; 1; 2; 3] with
           | [d'] => ff_walk f P Q dir on y' x' d' (if Nat.eqb d' d then turns else (turns + 1)%Z) acc'
           | _ => None
           end
  end.

(* the beam of the firefly on (y, x) *)
Definition ff_beam (P Q : nat) (dir : list Z) (on : nat -> bool) (y x : nat)
  : option (nat * nat * nat * Z * list nat) :=
  let d := ff_dot dir Q y x in
  if seg P Q on y x d then ff_walk (P * Q) P Q dir on y x d 0%Z [] else None.

Definition rules_firefly (pb : problem) (ans : answer) : bool :=
  let h := dim pb 0 in let w := dim pb 1 in
  let dir := sec pb 1 in let num := sec pb 2 in
  let on := fun k => isb (getz ans k) in
  let g := lattice h w in
  let flies := filter (fun '(y, x) => ff_is dir w y x) (cells h w) in
  let beams := map (fun '(y, x) => (y, x, ff_beam h w dir on y x)) flies in
  Nat.eqb (length ans) (n_lattice_edges h w) && forallb is01 ans &&
  (* rule 3: a point without firefly carries no line or a line passing through (straight or turning) *)
  forallb (fun '(y, x) => ff_is dir w y x ||
             (let d := degree g on (y * w + x) in Nat.eqb d 0 || Nat.eqb d 2)) (cells h w) &&
  (* rules 1, 2, 4: the beam of every firefly exists, arrives at a side that is not the black dot, and turns
     as often as the number says *)
  forallb (fun '(y, x, b) =>
             match b with
             | Some (y', x', d, t, _) =>
                 negb (Nat.eqb (ff_dot dir w y' x') (opposite d)) &&
                 (let n := at2 num w y x in (n <? 0)%Z || (t =? n)%Z)
             | None => false
             end) beams &&
  (* rule 2: every drawn segment belongs to the beam of some firefly *)
  forallb (fun k => negb (on k) ||
             existsb (fun '(_, _, b) => match b with Some (_, _, _, _, segs) => mem k segs | None => false end) beams)
          (seq 0 (n_lattice_edges h w)) &&
  (* rule 5: the points visited by lines (every firefly is one) hang together through drawn segments *)
  match filter (on_line g on) (seq 0 (nv g)) with
  | [] => true
  | s :: _ as l => let c := component g (fun _ => true) on s in forallb (fun v => mem v c) l
  end.

Definition answers_firefly (pb : problem) : list answer :=
  all_answers (bool_doms (n_lattice_edges (dim pb 0) (dim pb 1))).
